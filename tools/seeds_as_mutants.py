#!/venv/bin/python
"""List the seeded changes under /verif/seeded as patch mutants for tools/mutate.py."""
import glob, json, os, sys
VERIF = os.path.dirname(os.path.dirname(os.path.abspath(__file__)))
out = []
for d in sorted(glob.glob(os.path.join(VERIF, "seeded", "C*"))):
    meta = json.load(open(os.path.join(d, "meta.json")))
    name = os.path.basename(d)
    out.append(dict(id="seed-" + name, property=meta["property"], patch=os.path.join("seeded", name, "patch.diff"),
                    note=meta.get("summary", "")[:110]))
    for extra in meta.get("also_check", []):
        out.append(dict(id=f"seed-{name}-{extra}", property=extra, patch=os.path.join("seeded", name, "patch.diff"),
                        note="(cross-check) " + meta.get("summary", "")[:90]))
json.dump(out, open(os.path.join(VERIF, "mutants", "seeded.json"), "w"), indent=1)
print(len(out), "seeded mutants")
