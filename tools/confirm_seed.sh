#!/bin/bash
# Confirm a seeded change independently: tools/confirm_seed.sh <dir with patch.diff demo.py meta.json> <name>
# Uses its own scratch worktree of /repo under /tmp/confirm (removed afterwards).
# Result: <dir>/confirm.json  {demo_clean, demo_mutated, tests_passed, tests_failed, failed_tests}
set -u
SRC="$(cd "$1" && pwd)"; NAME="$2"
WT=/tmp/confirm/$NAME
mkdir -p /tmp/confirm
git -C /repo worktree remove --force "$WT" 2>/dev/null
git -C /repo worktree add -q --detach "$WT" HEAD || exit 2
cd "$WT" || exit 2
export PYTHONPATH="$WT" MPLBACKEND=Agg NUMBA_CACHE_DIR="$WT/.numba"
/venv/bin/python "$SRC/demo.py" > "$SRC/demo_clean.log" 2>&1; DC=$?
git apply "$SRC/patch.diff" || { echo "patch does not apply"; git -C /repo worktree remove --force "$WT"; exit 2; }
/venv/bin/python "$SRC/demo.py" > "$SRC/demo_mutated.log" 2>&1; DM=$?
/venv/bin/python -m pytest -q -p no:cacheprovider --timeout=900 -x --deselect test/test_datawrangler.py::TestDataWrangler::test_read_single_on_minishark --deselect test/test_example_notebooks.py::TestExampleNotebooks::test_notebook_example_hvsr_cli --deselect test/test_example_notebooks.py::TestExampleNotebooks::test_notebook_example_psd_and_self_noise test > "$SRC/tests_mutated.log" 2>&1; TR=$?
SUMMARY=$(tail -1 "$SRC/tests_mutated.log")
cd /; git -C /repo worktree remove --force "$WT"
printf '{"demo_clean_exit": %d, "demo_mutated_exit": %d, "pytest_exit": %d, "pytest_summary": "%s"}\n' $DC $DM $TR "$SUMMARY" > "$SRC/confirm.json"
cat "$SRC/confirm.json"
