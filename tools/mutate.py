#!/venv/bin/python
"""Sensitivity testing: apply one source mutation at a time to a scratch copy of
/repo/hvsrpy (under /var/tmp, removed afterwards) and run a property's quick
check against it.  A mutant is *killed* when the check exits 1.

usage: tools/mutate.py mutants/C02.json [-j 4] [--only id,id] [--tier quick]
Mutant file: list of {"id", "property", "file", "old", "new", "note", ["count"]}.
A mutant may instead give "patch": path to a unified diff (relative to the repo root).
"""
import argparse
import json
import os
import shutil
import subprocess
import sys
import tempfile
import time
from concurrent.futures import ThreadPoolExecutor

VERIF = os.path.dirname(os.path.dirname(os.path.abspath(__file__)))
REPO = "/repo"


def run_mutant(m, tier, shards, seed, keep_log, save_replays=False):
    t0 = time.time()
    root = tempfile.mkdtemp(prefix=f"vf-mut-{m['id']}-", dir="/var/tmp")
    try:
        shutil.copytree(os.path.join(REPO, "hvsrpy"), os.path.join(root, "hvsrpy"),
                        ignore=shutil.ignore_patterns("__pycache__"))
        if "patch" in m:
            patch = m["patch"] if os.path.isabs(m["patch"]) else os.path.join(VERIF, m["patch"])
            # only the library part of the patch (a seeded change may also add a test file)
            parts = open(patch).read().split("diff --git ")
            kept = "".join("diff --git " + part for part in parts[1:] if part.startswith("a/hvsrpy/"))
            lib_patch = os.path.join(root, "library-only.diff")
            open(lib_patch, "w").write(kept)
            rc = subprocess.call(["patch", "-p1", "-s", "-d", root, "-i", lib_patch])
            if rc != 0:
                return dict(m, status="patch-failed", wall=0)
        else:
            for e in m.get("edits", [m]):
                path = os.path.join(root, e["file"])
                src = open(path).read()
                count = src.count(e["old"])
                if count != e.get("count", 1):
                    return dict(m, status=f"pattern-found-{count}-times", wall=0)
                src = src.replace(e["old"], e["new"])
                open(path, "w").write(src)
        env = dict(os.environ, VF_REPO=root, VERIF_SEED=str(seed), NUMBA_CACHE_DIR=os.path.join(root, ".numba"))
        if shards:
            env["VF_SHARDS"] = str(shards)
        env["VF_EVIDENCE_DIR"] = os.path.join(root, "evidence")
        env["VF_OUT_DIR"] = os.path.join(root, "out")
        if save_replays:
            env["VF_SHRINK"] = "1"
        p = subprocess.run([os.path.join(VERIF, "check"), m["property"], tier], env=env, capture_output=True, text=True)
        out = p.stdout + p.stderr
        first = next((l for l in out.splitlines() if l.startswith("VIOLATION")), "")
        msg = ""
        lines = out.splitlines()
        for i, l in enumerate(lines):
            if l.startswith("VIOLATION") and i + 1 < len(lines):
                msg = lines[i + 1].strip()[:300]
                break
        if keep_log:
            os.makedirs(os.path.join(VERIF, "out"), exist_ok=True)
            open(os.path.join(VERIF, "out", f"mutant-{m['id']}.log"), "w").write(out)
        status = {0: "SURVIVED", 1: "killed", 2: "harness-error"}.get(p.returncode, f"exit-{p.returncode}")
        if save_replays and p.returncode == 1:
            import glob
            found = sorted(glob.glob(os.path.join(root, "out", f"{m['property']}-*.json")), key=os.path.getsize)
            if found:
                dest = os.path.join(VERIF, "replays", m["property"])
                os.makedirs(dest, exist_ok=True)
                doc = json.load(open(found[0]))
                doc["note"] = f"regression case: fails when '{m.get('note', m['id'])}' ({m['id']}); holds on the repaired tree"
                json.dump(doc, open(os.path.join(dest, f"{m['id']}.json"), "w"), indent=1)
        return dict(m, status=status, wall=round(time.time() - t0, 1), message=msg)
    finally:
        shutil.rmtree(root, ignore_errors=True)


def main():
    ap = argparse.ArgumentParser()
    ap.add_argument("files", nargs="+")
    ap.add_argument("-j", type=int, default=4)
    ap.add_argument("--shards", type=int, default=4)
    ap.add_argument("--tier", default="quick")
    ap.add_argument("--seed", type=int, default=1)
    ap.add_argument("--only", default="")
    ap.add_argument("--log", action="store_true")
    ap.add_argument("--save-replays", action="store_true", help="shrink and copy the smallest failing case to replays/<ID>/<mutant>.json")
    a = ap.parse_args()
    mutants = []
    for f in a.files:
        mutants.extend(json.load(open(f)))
    if a.only:
        sel = set(a.only.split(","))
        mutants = [m for m in mutants if m["id"] in sel]
    with ThreadPoolExecutor(a.j) as ex:
        results = list(ex.map(lambda m: run_mutant(m, a.tier, a.shards, a.seed, a.log, a.save_replays), mutants))
    bad = 0
    for r in results:
        print(f"{r['property']} {r['id']:<28} {r['status']:<14} {r['wall']:>6}s  {r.get('note','')}")
        if r["status"] == "killed" and r.get("message"):
            print(f"      -> {r['message'][:200]}")
        if r["status"] != "killed":
            bad += 1
    print(f"{len(results) - bad}/{len(results)} killed")
    return 1 if bad else 0


if __name__ == "__main__":
    sys.exit(main())
