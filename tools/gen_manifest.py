#!/venv/bin/python
"""Regenerate MANIFEST.json from the property modules present under vf/props."""
import importlib
import json
import os
import sys

VERIF = os.path.dirname(os.path.dirname(os.path.abspath(__file__)))
sys.path.insert(0, VERIF)

BASELINE = ("cd /repo && /venv/bin/python -m pytest -ra -q -p no:cacheprovider --timeout=900 "
            "--continue-on-collection-errors")


def main():
    props = [json.loads(l) for l in open(os.path.join(VERIF, "properties.jsonl"))]
    checks, na = [], []
    for p in props:
        pid = p["id"]
        path = os.path.join(VERIF, "vf", "props", pid.lower() + ".py")
        if not os.path.exists(path):
            na.append(dict(property_id=pid, reason="check not built yet in this revision of /verif (planned, see DESIGN.md section 3)"))
            continue
        mod = importlib.import_module(f"vf.props.{pid.lower()}")
        checks.append(dict(
            property_id=pid,
            quick_cmd=f"./check {pid} quick",
            thorough_cmd=f"./check {pid} thorough",
            evidence_file=f"evidence/{pid}.json",
            replay_cmd_template=f"./check {pid} replay {{path}}",
            engine="hypothesis",
            level_claimed=dict(
                category="exploration",
                text=getattr(mod, "LEVEL_TEXT", None) or (
                    f"Exploration by generated-input search (Hypothesis, seeded and sharded): {mod.BUDGET['quick']} cases in the quick tier, "
                    f"{mod.BUDGET['thorough']} with shrinking in the thorough tier"
                    + (f", plus {mod.BIG['quick']} / {mod.BIG['thorough']} deployment-scale cases (quick / thorough, never shrunk; sizes in DESIGN.md 1.9)"
                       if getattr(mod, "BIG", None) else "")
                    + ", each evaluated against an explicit oracle "
                    f"({getattr(mod, 'TECHNIQUE', 'reference model')}). A pass means no counter-example among the generated cases; it is not a proof. "
                    "This is the right level here because the property quantifies over unbounded inputs / configurations / call histories of "
                    "numpy-numba-scipy code for which an executable oracle exists, while symbolic or exhaustive methods cannot execute that code."),
                design_ref=f"DESIGN.md section 3, {pid}"),
            level_note="; ".join(getattr(mod, "ASSUMPTIONS", [])),
            technique=getattr(mod, "TECHNIQUE", "property-based testing (Hypothesis) against a reference model"),
        ))
    manifest = dict(
        version=1,
        setup_cmd="./check setup",
        hooks=dict(guard="HVSRPY_VERIF", enable="no hooks: checks import /repo's working tree directly (editable install, VF_REPO=/repo)",
                   baseline_off_cmd=BASELINE, source_commits=[], add_only=True),
        engines=[dict(name="hypothesis", path="vf/run.py", serves_properties=[c["property_id"] for c in checks],
                      kind_free_text="Hypothesis 6.168 strategies -> JSON case descriptions -> check_case(case) oracle; "
                                     "sharded over processes, seeded by VERIF_SEED; shrunk failing case = replay file")],
        checks=checks,
        notes="All checks: ./check <ID> quick|thorough|replay <file>. Exit 0 held / 1 VIOLATION / 2 harness error. "
              "Known findings: known_findings.txt (24 defects repaired by fix: commits, none outstanding).",
        not_applicable=na,
    )
    with open(os.path.join(VERIF, "MANIFEST.json"), "w") as f:
        json.dump(manifest, f, indent=1)
    import jsonschema
    schema = json.load(open("/root/.vp/MANIFEST.schema.json"))
    jsonschema.Draft202012Validator(schema).validate(manifest)
    print(f"MANIFEST.json: {len(checks)} checks, {len(na)} not yet claimed")


if __name__ == "__main__":
    main()
