#!/venv/bin/python
"""Print the table of DESIGN.md section 6 from the modules (budgets), the committed evidence files (wall time,
evaluations, distinct non-trivial cases of the last quick run) and the mutant lists."""
import importlib
import json
import os
import sys

VERIF = os.path.dirname(os.path.dirname(os.path.abspath(__file__)))
sys.path.insert(0, VERIF)


def main():
    print("| check | quick cases (+ scale cases) | thorough cases (+ scale cases) | quick wall (s) | evaluated | distinct non-trivial (quick) | hand-written mutants |")
    print("|---|---|---|---|---|---|---|")
    total = 0.0
    for i in range(1, 21):
        pid = f"C{i:02d}"
        mod = importlib.import_module(f"vf.props.{pid.lower()}")
        big = getattr(mod, "BIG", {"quick": 0, "thorough": 0})
        ev = json.load(open(os.path.join(VERIF, "evidence", f"{pid}.json")))
        nm = len(json.load(open(os.path.join(VERIF, "mutants", f"{pid}.json"))))
        cov = ev["coverage"]
        total += ev["wall_s"]
        print(f"| {pid} | {mod.BUDGET['quick']} + {big['quick']} | {mod.BUDGET['thorough']} + {big['thorough']} | {ev['wall_s']:.0f} | "
              f"{cov['evaluations']} | {cov['distinct_nontrivial']} | {nm} |")
    print(f"\nsum of quick wall times: {total:.0f} s")


if __name__ == "__main__":
    main()
