"""C09 - Processing has no side effects on its inputs and is repeatable."""
import numpy as np
from hypothesis import strategies as st

from .. import gen, oracle
from ..core import Violation, Refusal, require, sut, snap, snap_diff, fresh_hvsrpy

ID = "C09"
RULE = ("Cases: 1-4 recordings (16-400 samples, drawn recipes, nested metadata; mixed time steps for the methods that allow "
        "it), any processing method incl. PSD with/without smoothing, FFT length given as None / explicit / {'n': None}, a "
        "history of 2-4 process() calls (same settings object, fresh settings object, or another configuration), followed by "
        "in-place edits of the recordings and of every settings object. Non-trivial = Tukey width > 0 with non-constant "
        "samples and at least one repeated call on the same settings object; distinct by SHA-1 of the case."
        " 'collide' calls replace one number of the configuration by a near-collision variant; the first call of each case and every call with another configuration is compared with a pristine copy of the library.")
ASSUMPTIONS = [
    "bit-exact snapshots (sample arrays, time steps, orientation, metadata incl. nested values) taken by the harness",
    "a settings object is only re-used with the same list of recordings (process() records the FFT length it chose in the settings)",
]
BUDGET = {"quick": 640, "thorough": 16000}
SHARDS = {"quick": 8, "thorough": 16}
TECHNIQUE = "property-based history testing: deep snapshots before/after every call, repeat-call differential, post-hoc mutation"

METHODS = gen.ALL_METHODS + ["psd", "psd"]


@st.composite
def strategy(draw):
    spec = draw(gen.processing_spec(n_max=400, methods=METHODS, fft_choices=(None, None, 2 ** 15, "record-length", 2 ** 16)))
    m = spec["method"]
    single_dt = m in ("diffuse_field", "psd") or draw(st.booleans())
    nrec = draw(st.integers(1, 4))
    dts = [draw(gen.choice(gen.DTS))]
    if not single_dt:
        if draw(gen.chance(3)):
            # nearly equal, but distinct, time steps (header rounding / clock drift): inputs must still come back untouched
            dts.append(dts[0] * (1 + draw(st.sampled_from([1e-9, 2.2e-8, 1e-6, -1e-7]))))
        else:
            dts.append(draw(gen.choice(gen.DTS)))
    exp = draw(st.one_of(st.integers(-6, 6), st.just(-10)))
    n0 = draw(st.integers(64 if spec["fft_n"] == "record-length" else 16, 400))
    equal = m in ("diffuse_field", "psd") or draw(st.booleans())
    recs = []
    for i in range(nrec):
        n = n0 if equal else draw(st.integers(64 if spec["fft_n"] == "record-length" else 16, 400))
        r = draw(gen.recording_recipe(n=n, dt=draw(st.sampled_from(dts)), scale_exp=(exp, exp)))
        recs.append(r)
    if m == "psd":
        spec["psd_smoothing"] = draw(st.booleans())
    if m == "diffuse_field":
        spec["policy"] = "keeping_majority_time_step"
    else:
        spec["policy"] = "frequency_domain_resampling" if m != "psd" else spec["policy"]
    used = [r["dt"] for r in recs]
    nmax = max(r["n"] for r in recs)
    nfft = nmax if spec["fft_n"] == "record-length" else spec["_nfft"]
    spec["_nfft"] = nfft
    fcs = draw(gen.center_frequencies(spec["op"], spec["bw"], 1.0 / (nfft * min(used)), 0.5 / max(used), max_size=10))
    if fcs is None:
        spec["op"], spec["bw"] = "konno_and_ohmachi", 10.0
        fcs = draw(gen.center_frequencies(spec["op"], spec["bw"], 1.0 / (nfft * min(used)), 0.5 / max(used), max_size=10))
    if fcs is None:
        spec["fft_n"], spec["_nfft"], nfft = None, 2 ** 15, 2 ** 15
        fcs = draw(gen.center_frequencies(spec["op"], spec["bw"], 1.0 / (nfft * min(used)), 0.5 / max(used), max_size=10))
    spec["fcs"] = fcs
    if spec["width"] == 0.0 and draw(st.booleans()):
        spec["width"] = 0.3
    history = draw(st.lists(st.sampled_from(["same", "same", "fresh", "other", "collide"]), min_size=1, max_size=4))
    width2 = draw(st.one_of(gen.floats(0.01, 1), st.just(0.0)))
    # "collide": the same configuration with one number replaced by a value a lossy cache key would confuse with it
    collide = dict(field=draw(st.sampled_from(["width", "width", "bw", "fc", "azimuth"])), how=draw(gen.choice(gen.COLLIDERS)))
    return dict(records=recs, spec=spec, history=history, width2=width2, collide=collide,
                meta_kind=draw(st.sampled_from(["none", "files", "nested"])))


BIG = {"quick": 8, "thorough": 96}


@st.composite
def strategy_big(draw):
    """Long recordings: 1-2 records of 2^14 .. 2^18 samples (one time step), up to 5 centre frequencies."""
    case = draw(strategy())
    spec = case["spec"]
    n = draw(gen.big_size(2 ** 14, 2 ** 18))
    recs = case["records"][:draw(st.sampled_from([1, 2]))]
    dt0 = recs[0]["dt"]
    for r in recs:
        r["n"], r["dt"] = n, dt0
    spec["fft_n"] = draw(st.sampled_from([None, None, 2 ** 15, "record-length"]))
    nfft = n if spec["fft_n"] == "record-length" else max(oracle.nextpow2(n), spec["fft_n"] or 0)
    spec["_nfft"] = nfft
    fcs = draw(gen.center_frequencies(spec["op"], spec["bw"], 1.0 / (nfft * dt0), 0.5 / dt0, max_size=5))
    if fcs is None:
        spec["op"], spec["bw"] = "konno_and_ohmachi", 40.0
        fcs = draw(gen.center_frequencies(spec["op"], spec["bw"], 1.0 / (nfft * dt0), 0.5 / dt0, max_size=5))
    spec["fcs"] = fcs
    case.update(records=recs, spec=spec, history=case["history"][:2], big=True)
    return case


def warmup():
    from . import c02
    c02.warmup()


def _meta(kind, i):
    if kind == "none":
        return None
    if kind == "files":
        return {"file name(s)": [f"sta{i}.e.mseed", f"sta{i}.n.mseed", f"sta{i}.z.mseed"]}
    return {"file name(s)": f"rec{i}.mseed", "butterworth_filter": [0.5, 20.0], "trim": (0.0, 2.5),
            "notes": {"operator": ["x", "y"], "gain": np.array([1.0, 2.0])}}


def _mutate_nested(meta):
    for k, v in list(meta.items()):
        if isinstance(v, list):
            v.append("EDITED")
        elif isinstance(v, dict):
            _mutate_nested(v)
        elif isinstance(v, np.ndarray):
            v += 1
    meta["added afterwards"] = 1
    meta["file name(s)"] = "renamed"


def _collided(spec, c):
    """spec with one number replaced by its collision variant (None when the variant leaves the valid domain)."""
    sp = dict(spec)
    f, how = c["field"], c["how"]
    if f == "width":
        y = gen.collide(spec["width"], how)
        if not (0.0 <= y <= 1.0) or y == spec["width"]:
            return None
        sp["width"] = y
    elif f == "bw":
        if spec["op"] == "savitzky_and_golay":
            return None
        y = gen.collide(spec["bw"], how)
        if not (0.5 * spec["bw"] <= y <= 2 * spec["bw"]) or y == spec["bw"]:
            return None
        sp["bw"] = y
    elif f == "fc":
        y = gen.collide(spec["fcs"][0], how)
        if not (0.999 * spec["fcs"][0] <= y <= 1.001 * spec["fcs"][0]) or y in spec["fcs"]:
            return None
        sp["fcs"] = [y] + list(spec["fcs"][1:])
    else:
        az = spec.get("azimuth")
        if not isinstance(az, (int, float)):
            return None
        y = gen.collide(az, how)
        if not (0 <= y < 180) or y == az:
            return None
        sp["azimuth"] = y
    return sp


def check_case(case):
    import hvsrpy as hv
    spec = case["spec"]
    m = spec["method"]
    recs = [gen.build_recording(hv, r, meta=_meta(case["meta_kind"], i)) for i, r in enumerate(case["records"])]
    labels = [gen.family(m), f"fft={spec['fft_n']}"] + (["big-2^%d-samples" % int(np.log2(case["records"][0]["n"]))] if case.get("big") else [])
    if spec["width"] > 0:
        labels.append("taper-visible")
    before = [snap(r) for r in recs]

    def inputs_unchanged(when):
        for i, (r, b) in enumerate(zip(recs, before)):
            a = snap(r)
            if a != b:
                raise Violation(f"{m}: process() changed recording {i} ({when}): {snap_diff(b, a)}")

    settings_objs = []      # (settings, spec used, snapshot of first result)
    results = []

    def call(settings, sp, what):
        try:
            res = sut(hv.process, recs, settings, allow=(ValueError,), what=f"process[{m}]")
        except Refusal:
            inputs_unchanged(what + " (refused call)")
            return None
        inputs_unchanged(what)
        return res

    def pristine(sp, what, got_snap):
        """The same call in a pristine copy of the library (new module state) on recordings rebuilt from the recipes."""
        h2 = fresh_hvsrpy()
        recs2 = [gen.build_recording(h2, r, meta=_meta(case["meta_kind"], i)) for i, r in enumerate(case["records"])]
        try:
            ref = sut(h2.process, recs2, gen.make_settings(h2, sp), allow=(ValueError,), what=f"process[{m}] in a pristine library copy")
        except Refusal:
            raise Violation(f"{m}: {what} succeeded, but the same call is refused by a pristine copy of the library")
        rs = snap(ref)
        if rs != got_snap:
            raise Violation(f"{m}: {what} returns a result that differs from the same call made first in a pristine copy of the "
                            f"library (the result depends on earlier calls): {snap_diff(rs, got_snap)}")

    s0 = gen.make_settings(hv, spec)
    r0 = call(s0, spec, "first call")
    if r0 is None:
        return dict(labels=labels + ["refused"], nontrivial=False)
    pristine(spec, "the first call of this case (after the calls of earlier cases)", snap(r0))
    settings_objs.append((s0, spec))
    results.append((r0, snap(r0)))
    first_snap = results[0][1]
    repeated = False
    spec2 = dict(spec, width=case["width2"])
    for op in case["history"]:
        if op == "same":
            r = call(s0, spec, "repeated call, same settings object")
            if r is None:
                raise Violation(f"{m}: the same call on the same recordings and settings object was refused the second time")
            sn = snap(r)
            if sn != first_snap:
                raise Violation(f"{m} (fft_settings {spec['fft_n']}): repeating process() with the same recordings and the same settings object "
                                f"gives a different result: {snap_diff(first_snap, sn)}")
            results.append((r, sn))
            repeated = True
        elif op == "fresh":
            s = gen.make_settings(hv, spec)
            r = call(s, spec, "call with a fresh settings object")
            if r is not None:
                sn = snap(r)
                if sn != first_snap:
                    raise Violation(f"{m}: an identical fresh settings object gives a different result on the same recordings: {snap_diff(first_snap, sn)}")
                settings_objs.append((s, spec))
                results.append((r, sn))
        elif op == "collide" and case.get("collide"):
            sp = _collided(spec, case["collide"])
            if sp is None:
                continue
            s = gen.make_settings(hv, sp)
            r = call(s, sp, "call with a nearly identical configuration")
            if r is not None:
                sn = snap(r)
                pristine(sp, f"a call whose {case['collide']['field']} differs from the previous one by '{case['collide']['how']}'", sn)
                settings_objs.append((s, sp))
                results.append((r, sn))
                labels.append("collide-" + case["collide"]["field"])
        else:
            s = gen.make_settings(hv, spec2)
            r = call(s, spec2, "call with another configuration")
            if r is not None:
                sn = snap(r)
                pristine(spec2, "a call with another taper width", sn)
                settings_objs.append((s, spec2))
                results.append((r, sn))
            labels.append("interleaved-other")

    # results must not change when recordings / settings are edited afterwards
    for r in recs:
        for comp in (r.ns, r.ew, r.vt):
            comp.amplitude *= 3.0
            comp.amplitude[0] = 12345.0
        _mutate_nested(r.meta)
        r.degrees_from_north = 77.0
    for s, sp in settings_objs:
        s.window_type_and_width[1] = 0.777
        if getattr(s, "smoothing", None) is not None:
            c = s.smoothing["center_frequencies_in_hz"]
            if isinstance(c, (list, np.ndarray)):
                c[0] = 0.123456
            else:
                s.smoothing["center_frequencies_in_hz"] = (0.123456,)
            s.smoothing["bandwidth"] = 1.0
        if isinstance(s.fft_settings, dict):
            s.fft_settings["n"] = 17
        az = getattr(s, "azimuths_in_degrees", None)
        if az is not None:
            az[0] = az[0] + 1.0
    for k, (r, sn) in enumerate(results):
        now = snap(r)
        if now != sn:
            raise Violation(f"{m}: result {k} changed after the recordings/settings were modified: {snap_diff(sn, now)}")

    nonconst = all(np.ptp(gen.expand_signal(rr[c], rr["n"])) > 0 for rr in case["records"] for c in ("ns", "ew", "vt"))
    return dict(labels=labels, nontrivial=bool(spec["width"] > 0 and nonconst and repeated))
