"""C12 - HVSR results survive a write/read round trip after any history."""
import math
import os
import shutil
import tempfile

import numpy as np
from hypothesis import strategies as st

from .. import gen, oracle
from ..core import Violation, Refusal, require, sut, same_bits, rel_err
from . import c06, c08

ID = "C12"
RULE = ("Cases: a traditional (3-10 windows), azimuthal (1-5 distinct azimuths written as ordinary decimals, equal or "
        "unequal window counts) or diffuse-field result, obtained either from process() on small generated recordings or "
        "from generated curve sets carrying the metadata process() attaches; a history of 0-5 peak-range updates, "
        "frequency_domain_window_rejection calls and manual rejections; then write_hvsr_object_to_file with drawn "
        "distribution_mc / distribution_fn and read_hvsr_object_from_file. Non-trivial = the written object had >= 1 rejected "
        "window or a bounded search range; distinct by SHA-1 of the case."
        ' Search limits include inf/1e20/1e300/0/-inf/1e-300.')
ASSUMPTIONS = [
    "results with fewer than two accepted windows are outside the property (the writer legitimately refuses: std undefined)",
    "azimuths are ordinary decimals (>= 0.001 or 0, at most 4 decimals), the form the text format is designed for",
    "files are written to a per-case temporary directory that is removed afterwards",
]
BUDGET = {"quick": 1200, "thorough": 30000}
SHARDS = {"quick": 8, "thorough": 16}
TECHNIQUE = "property-based round-trip testing over operation histories; file columns re-parsed independently with numpy.loadtxt"

DISTS = ["lognormal", "normal"]
STAT_NAMES = ["mean_curve", "std_curve", "mean_fn_frequency", "mean_fn_amplitude", "std_fn_frequency", "std_fn_amplitude", "cov_fn"]


@st.composite
def strategy(draw):
    kind = draw(gen.choice(["traditional", "azimuthal", "diffuse_field", "traditional", "azimuthal"]))
    source = draw(st.sampled_from(["curves", "curves", "process"]))
    case = dict(kind=kind, source=source)
    if source == "process":
        dt = draw(gen.choice([0.01, 0.005, 1 / 75, 0.02]))
        nrec = draw(st.integers(3, 7))
        n = draw(st.integers(100, 400))
        case["records"] = [draw(gen.recording_recipe(n=n, dt=dt, scale_exp=(0, 0), kinds=("noise", "sines", "chirp"))) for _ in range(nrec)]
        spec = draw(gen.processing_spec(n_max=400, methods=[{"traditional": "geometric_mean"}.get(kind, kind)], operators=["konno_and_ohmachi", "log_rectangular", "parzen"],
                                        fft_choices=(None,)))
        if kind == "traditional":
            spec["method"] = draw(gen.choice(["geometric_mean", "squared_average", "single_azimuth", "rotdpp", "maximum_horizontal_value"]))
            if spec["method"] == "single_azimuth":
                spec["azimuth"] = draw(gen.floats(0, 180))
            if spec["method"] == "rotdpp":
                spec["azimuths"] = [0.0, 45.0, 90.0, 135.0]
                spec["percentile"] = 50.0
        if kind == "azimuthal":
            spec["azimuths"] = sorted(draw(st.lists(st.sampled_from([0.0, 22.5, 30.0, 45.0, 90.0, 137.25, 150.0, 179.5]), min_size=1, max_size=4, unique=True)))
        spec["policy"] = "keeping_majority_time_step" if kind == "diffuse_field" else "frequency_domain_resampling"
        k = draw(st.integers(12, 40))
        lo = draw(gen.floats(0.5, 2.0))
        spec["fcs"] = [float(v) for v in np.geomspace(lo, 0.45 / dt, k)]
        spec["fcs_as"] = "ndarray"
        case["spec"] = spec
        nwins = [nrec] * (len(spec.get("azimuths", [0])) if kind == "azimuthal" else 1)
    else:
        nf = draw(st.integers(12, 60))
        f0 = draw(gen.floats(0.1, 0.5))
        case["f"] = [float(v) for v in np.geomspace(f0, f0 * draw(gen.floats(30, 150)), nf)]
        naz = draw(st.integers(1, 5)) if kind == "azimuthal" else 1
        equal = draw(st.booleans())
        n0 = draw(st.integers(3, 10))
        case["groups"] = [dict(nwin=n0 if equal else draw(st.integers(3, 10)), seed=draw(gen.seeds32), centre=draw(gen.floats(0.3, 0.7)),
                               sigma=draw(gen.log_floats(0.01, 0.12)), outlier_frac=draw(st.sampled_from([0.0, 0.2])), outlier_sigma=0.15,
                               bimodal=0.0, bimodal_frac=0.3, second_bump=draw(st.booleans())) for _ in range(naz)]
        if kind == "azimuthal":
            case["azimuths"] = sorted(draw(st.lists(st.one_of(st.sampled_from([0.0, 22.5, 45.0, 90.0, 137.25, 180.0]),
                                                               st.integers(1, 179999).map(lambda v: v / 1000.0)),
                                                    min_size=naz, max_size=naz, unique=True)))
        nwins = [g["nwin"] for g in case["groups"]]
    ops = []
    if draw(gen.chance(3)):
        # a tuning loop: the same search range twice, one kwargs dict edited in place in between
        lo, hi = draw(st.one_of(st.none(), gen.floats(0.05, 3.0))), draw(st.one_of(st.none(), gen.floats(3.0, 60.0)))
        k1, k2 = draw(st.sampled_from([({"prominence": 0.05}, {"prominence": 2.5}), ({"prominence": 3.0}, {"prominence": 0.1}), ({"height": 1.2}, {"height": 3.5}),
                                       ({"distance": 1}, {"prominence": 1.5}), ({"width": 1}, {"width": 4})]))
        ops.append(dict(op="range", lo=lo, hi=hi, as_list=False, kw=k1, shared=True, same_range=False))
        ops.append(dict(op="range", lo=lo, hi=hi, as_list=False, kw=k2, shared=True, same_range=True))
    for _ in range(draw(st.integers(0, 5))):
        o = draw(gen.choice(["range", "fdwr", "manual", "range"]))
        if o == "range":
            # rarely "no limit" written as a number (inf, 1e20, 0): must come back as written
            ops.append(dict(op="range", lo=draw(st.one_of(st.none(), gen.floats(0.05, 3.0), gen.floats(0.05, 3.0), st.sampled_from([0.0, -float("inf"), 1e-300]))),
                            hi=draw(st.one_of(st.none(), gen.floats(3.0, 60.0), gen.floats(3.0, 60.0), st.sampled_from([float("inf"), 1e20, 1e300]))),
                            as_list=draw(st.booleans()),
                            kw=draw(st.sampled_from([None, None, {}, {"prominence": 0.5}, {"prominence": 2.0}, {"distance": 4}, {"height": 2.5}])),
                            shared=draw(st.booleans()), same_range=draw(gen.chance(3))))
        elif o == "fdwr":
            ops.append(dict(op="fdwr", n=draw(st.sampled_from([1.0, 1.5, 2.0, 2.5])), dist_fn=draw(st.sampled_from(DISTS)), dist_mc=draw(st.sampled_from(DISTS)),
                            lo=draw(st.one_of(st.none(), gen.floats(0.05, 3.0))), hi=draw(st.one_of(st.none(), gen.floats(3.0, 60.0)))))
        else:
            ops.append(dict(op="manual", az=draw(st.integers(0, len(nwins) - 1)), frac=draw(gen.floats(0, 1)), count=draw(st.integers(1, 3))))
    case["ops"] = ops
    case["dist_mc"] = draw(st.sampled_from(DISTS))
    case["dist_fn"] = draw(st.sampled_from(DISTS))
    return case


BIG = {"quick": 8, "thorough": 80}


@st.composite
def strategy_big(draw):
    """Results of long deployments: 200 .. 4000 windows per azimuth (1-2 azimuths), written and read back."""
    case = draw(strategy().filter(lambda c: c["source"] == "curves"))
    groups = case["groups"][:2]
    for g in groups:
        g["nwin"] = draw(gen.big_size(200, 4000))
    case["groups"] = groups
    if case["kind"] == "azimuthal":
        case["azimuths"] = case["azimuths"][:len(groups)]
    case["ops"] = case["ops"][:3]
    case["big"] = True
    return case


def warmup():
    from . import c02
    c02.warmup()


def _build(hv, case):
    kind = case["kind"]
    if case["source"] == "process":
        recs = [gen.build_recording(hv, r) for r in case["records"]]
        return sut(hv.process, recs, gen.make_settings(hv, case["spec"]), what="process")
    f = np.array(case["f"], dtype=float)
    groups = [c06.expand_group(g, f) for g in case["groups"]]
    if kind == "traditional":
        meta = hv.HvsrTraditionalProcessingSettings().attr_dict
        return hv.HvsrTraditional(f, groups[0], meta=meta)
    if kind == "diffuse_field":
        meta = hv.HvsrDiffuseFieldProcessingSettings().attr_dict
        return hv.HvsrDiffuseField(f, groups[0][0], meta=meta)
    meta = hv.HvsrAzimuthalProcessingSettings(azimuths_in_degrees=list(case["azimuths"])).attr_dict
    return hv.HvsrAzimuthal([hv.HvsrTraditional(f, A) for A in groups], list(case["azimuths"]), meta=meta)


def _members(hv, obj):
    if isinstance(obj, hv.HvsrAzimuthal):
        return list(obj.hvsrs)
    if isinstance(obj, hv.HvsrTraditional):
        return [obj]
    return []


def _stats(hv, obj):
    out = {}
    if isinstance(obj, hv.HvsrDiffuseField):
        out["peak"] = np.array([float(obj.peak_frequency), float(obj.peak_amplitude)])
        out["mean_curve"] = np.asarray(obj.mean_curve(), dtype=float)
        return out
    for dist in DISTS:
        for name in STAT_NAMES:
            try:
                out[f"{name}({dist})"] = np.asarray(getattr(obj, name)(dist), dtype=float)
            except (ValueError, ZeroDivisionError) as e:
                out[f"{name}({dist})"] = f"raises {type(e).__name__}"
        try:
            out[f"mean_curve_peak({dist})"] = np.asarray(obj.mean_curve_peak(dist), dtype=float)
        except (ValueError, ZeroDivisionError) as e:
            out[f"mean_curve_peak({dist})"] = f"raises {type(e).__name__}"
        for n_ in (1.0, -1.0):
            try:
                out[f"nth_std_fn_frequency({n_},{dist})"] = np.asarray(obj.nth_std_fn_frequency(n_, dist), dtype=float)
                out[f"nth_std_curve({n_},{dist})"] = np.asarray(obj.nth_std_curve(n_, dist), dtype=float)
            except (ValueError, ZeroDivisionError) as e:
                out[f"nth_std({n_},{dist})"] = f"raises {type(e).__name__}"
    return out


def _same_value(a, b):
    if isinstance(a, str) or isinstance(b, str):
        return isinstance(a, str) and isinstance(b, str) and a == b
    return same_bits(a, b)


def check_case(case):
    import hvsrpy as hv
    obj = _build(hv, case)
    kind = case["kind"]
    labels = [kind, case["source"]] + (["big-%d00s-of-windows" % (max(g["nwin"] for g in case["groups"]) // 100)] if case.get("big") else [])
    members = _members(hv, obj)
    shared_kw = {}
    last_range = (None, None)
    for op in case["ops"]:
        if op["op"] == "range":
            lo, hi = (last_range if op.get("same_range") else (op["lo"], op["hi"]))
            last_range = (lo, hi)
            rng = [lo, hi] if op["as_list"] else (lo, hi)
            kw = op.get("kw")
            if kw and op.get("shared"):
                shared_kw.clear()
                shared_kw.update(kw)          # one dict object re-used and edited in place between calls
                kw = shared_kw
                labels.append("same-kwargs-dict-reused")
            sut(obj.update_peaks_bounded, rng, kw, what="update_peaks_bounded")
            if op.get("kw"):
                labels.append("find-peaks-kwargs")
        elif op["op"] == "fdwr":
            if kind == "diffuse_field":
                continue
            try:
                last_range = (op["lo"], op["hi"])
                sut(hv.frequency_domain_window_rejection, obj, n=op["n"], distribution_fn=op["dist_fn"], distribution_mc=op["dist_mc"],
                    search_range_in_hz=(op["lo"], op["hi"]), allow=(ValueError,), what="frequency_domain_window_rejection")
            except Refusal:
                labels.append("fdwr-refused")
            labels.append("fdwr")
        elif members:
            t = members[op["az"] % len(members)]
            start = int(op["frac"] * (t.n_curves - 1))
            for i in range(start, min(t.n_curves, start + op["count"])):
                t.valid_window_boolean_mask[i] = False
                t.valid_peak_boolean_mask[i] = False
            labels.append("manual")
    # state at write time
    before = _stats(hv, obj)
    tmp = tempfile.mkdtemp(prefix="vf-c12-")
    try:
        path = os.path.join(tmp, "result.csv")
        writable = kind == "diffuse_field" or (all(int(np.sum(t.valid_window_boolean_mask)) >= 1 for t in members)
                                               and sum(int(np.sum(t.valid_window_boolean_mask)) for t in members) >= 2
                                               and all(np.array_equal(t.valid_window_boolean_mask, t.valid_peak_boolean_mask) or kind == "traditional" for t in members))
        if kind == "traditional" and int(np.sum(members[0].valid_window_boolean_mask)) < 2:
            writable = False
        try:
            sut(hv.write_hvsr_object_to_file, obj, path, case["dist_mc"], case["dist_fn"], allow=(ValueError, ZeroDivisionError), what="write_hvsr_object_to_file")
        except Refusal as r:
            if writable:
                raise Violation(f"write_hvsr_object_to_file refused a {kind} result with at least two accepted windows: {r.exc}")
            return dict(labels=labels + ["unwritable-state"], nontrivial=False)
        if not writable:
            # fewer than two accepted windows: outside the property (derived columns are undefined / NaN)
            return dict(labels=labels + ["unwritable-state"], nontrivial=False)
        back = sut(hv.read_hvsr_object_from_file, path, what="read_hvsr_object_from_file")
        require(type(back) is type(obj), f"read back a {type(back).__name__}, wrote a {type(obj).__name__}")
        require(same_bits(back.frequency, obj.frequency), "frequency vector changed in the round trip")
        # curves, masks, peaks
        if kind == "diffuse_field":
            require(same_bits(back.amplitude, obj.amplitude), "diffuse-field curve changed in the round trip")
            curve_cols = [np.asarray(obj.amplitude)]
        else:
            bm, om = _members(hv, back), members
            require(len(bm) == len(om), f"{len(bm)} azimuths read back, {len(om)} written")
            if kind == "azimuthal":
                require([float(a) for a in back.azimuths] == [float(a) for a in obj.azimuths], f"azimuths {list(back.azimuths)} read back, {list(obj.azimuths)} written")
            curve_cols = []
            for j, (b, o) in enumerate(zip(bm, om)):
                require(b.amplitude.shape == o.amplitude.shape and same_bits(b.amplitude, o.amplitude),
                        f"curves of azimuth {j} changed in the round trip (shape {b.amplitude.shape} vs {o.amplitude.shape})")
                require(np.array_equal(np.asarray(b.valid_window_boolean_mask), np.asarray(o.valid_window_boolean_mask)) and
                        np.array_equal(np.asarray(b.valid_peak_boolean_mask), np.asarray(o.valid_peak_boolean_mask)),
                        f"accept masks of azimuth {j} changed in the round trip: window {np.asarray(b.valid_window_boolean_mask).astype(int).tolist()} vs "
                        f"{np.asarray(o.valid_window_boolean_mask).astype(int).tolist()}, peak {np.asarray(b.valid_peak_boolean_mask).astype(int).tolist()} vs {np.asarray(o.valid_peak_boolean_mask).astype(int).tolist()}")
                if not (same_bits(b._main_peak_frq, o._main_peak_frq) and same_bits(b._main_peak_amp, o._main_peak_amp)):
                    raise Violation(f"per-window peaks of azimuth {j} changed in the round trip: {np.asarray(b._main_peak_frq).tolist()} vs {np.asarray(o._main_peak_frq).tolist()} "
                                    f"(search range written {obj._search_range_in_hz}, read {back._search_range_in_hz})")
                curve_cols.extend(list(o.amplitude))
        sr_o, sr_b = obj._search_range_in_hz, back._search_range_in_hz
        require(sr_o is not None and sr_b is not None and list(sr_o) == list(sr_b), f"search range {sr_b} read back, {sr_o} written")
        require(list(back.meta.get("search_range_in_hz")) == list(sr_o), f"meta search range {back.meta.get('search_range_in_hz')} read back, object used {sr_o}")
        fk_o = obj._find_peaks_kwargs or None
        fk_b = back._find_peaks_kwargs or None
        require(fk_o == fk_b, f"find_peaks_kwargs {fk_b} read back, {fk_o} written")
        # statistics
        after = _stats(hv, back)
        for key, v in before.items():
            if not _same_value(v, after.get(key)):
                a_ = after.get(key)
                raise Violation(f"{key} differs after the round trip: written object {np.ravel(v)[:3].tolist() if not isinstance(v, str) else v}, "
                                f"read object {np.ravel(a_)[:3].tolist() if not isinstance(a_, str) else a_}")
        # file content, re-parsed independently
        arr = np.loadtxt(path, comments="#", delimiter=",", ndmin=2)
        require(same_bits(arr[:, 0], obj.frequency), "first file column is not the frequency vector")
        ncur = len(curve_cols)
        require(arr.shape[1] == 1 + ncur + (0 if kind == "diffuse_field" else 2), f"file has {arr.shape[1]} columns for {ncur} curves")
        for c, col in enumerate(curve_cols):
            require(same_bits(arr[:, 1 + c], col), f"file column {1 + c} is not curve {c} of the written object")
        if kind != "diffuse_field":
            mc = np.asarray(obj.mean_curve(case["dist_mc"]), dtype=float)
            sc = np.asarray(obj.std_curve(case["dist_mc"]), dtype=float)
            if not same_bits(arr[:, -2], mc):
                raise Violation(f"'mean curve ({case['dist_mc']})' column of the file is not the mean curve of the object that was written (rel diff {rel_err(arr[:, -2], mc):.3g})")
            if not same_bits(arr[:, -1], sc):
                raise Violation(f"'mean curve std ({case['dist_mc']})' column of the file is not the standard deviation curve of the object that was written "
                                f"(rel diff {rel_err(arr[:, -1], sc):.3g}; distribution_fn={case['dist_fn']})")
    finally:
        shutil.rmtree(tmp, ignore_errors=True)
    rejected = any((~np.asarray(t.valid_window_boolean_mask, dtype=bool)).any() for t in members)
    bounded = obj._search_range_in_hz is not None and any(v is not None for v in obj._search_range_in_hz)
    if bounded:
        labels.append("bounded-range")
    if rejected:
        labels.append("has-rejected")
    return dict(labels=sorted(set(labels)), nontrivial=bool(rejected or bounded))
