"""C02 - Smoothing operators are the published normalised kernels."""
import math

import numpy as np
from hypothesis import strategies as st

from .. import gen, oracle
from ..core import Violation, require, sut, close, same_bits, rel_err

ID = "C02"
RULE = ("Cases: FFT grid rfftfreq(n, dt) with n in [16, 4096], 1-5 spectrum rows from drawn recipes, a centre-"
        "frequency vector mixing on-grid, off-grid, 0 Hz, sub-first-bin, Nyquist and beyond-Nyquist values, one of the "
        "seven operators with a bandwidth within a decade of its default. Non-trivial = the spectrum is not constant and "
        "at least one centre has a window holding >= 2 spectral samples; distinct by SHA-1 of the case description."
        ' One case in five uses an exactly representable grid (n and 1/dt powers of two) with a linear-frequency kernel whose edges fall on bins, for the translation-invariance relation.')
ASSUMPTIONS = [
    "frequency grids are FFT grids (bin 0 is 0 Hz) as produced by hvsrpy.process",
    "a grid sample within 1e-9 (relative) of a kernel truncation limit may be counted in or out; such centres are not asserted",
    "numpy/scipy float64 arithmetic of the reference is trusted",
]
BUDGET = {"quick": 2400, "thorough": 60000}
SHARDS = {"quick": 8, "thorough": 16}
TECHNIQUE = "property-based testing: vectorised reference kernels + algebraic laws (constant, bounds, linearity, polynomial reproduction, row independence) + compiled-vs-interpreted differential"


# -- generator --------------------------------------------------------------

@st.composite
def spectrum_recipe(draw):
    kind = draw(st.sampled_from(["random", "random", "constant", "spike", "poly", "ints", "lognormal"]))
    r = dict(kind=kind, scale_exp=draw(st.integers(-9, 9)))
    if kind in ("random", "ints", "lognormal"):
        r["seed"] = draw(gen.seeds32)
    if kind == "constant":
        r["value"] = draw(gen.floats(0.0, 10.0))
    if kind == "spike":
        r["pos"] = draw(gen.floats(0, 1))
    if kind == "poly":
        r["coef"] = [draw(gen.floats(0, 3)) for _ in range(4)]
    return r


def expand_spectrum(r, nf):
    kind = r["kind"]
    x = np.linspace(0, 1, nf)
    if kind == "random":
        s = np.abs(np.random.Generator(np.random.PCG64(r["seed"])).standard_normal(nf))
    elif kind == "lognormal":
        s = np.exp(2 * np.random.Generator(np.random.PCG64(r["seed"])).standard_normal(nf))
    elif kind == "ints":
        s = np.random.Generator(np.random.PCG64(r["seed"])).integers(0, 4, size=nf).astype(float)
    elif kind == "constant":
        s = np.full(nf, r["value"])
    elif kind == "spike":
        s = np.zeros(nf)
        s[int(r["pos"] * (nf - 1))] = 1.0
    elif kind == "poly":
        c = r["coef"]
        s = c[0] + c[1] * x + c[2] * x ** 2 + c[3] * x ** 3
    return s * 10.0 ** r["scale_exp"]


@st.composite
def strategy(draw):
    n = draw(st.one_of(st.integers(16, 300), st.integers(16, 4096), st.sampled_from([64, 128, 1024, 4096])))
    dt = draw(gen.choice(gen.DTS))
    nf = n // 2 + 1
    f = np.fft.rfftfreq(n, dt)
    df = float(f[1])
    op, bw = draw(gen.operator_and_bandwidth())
    # linear operators: bandwidth sometimes expressed in bins so that narrow/wide windows both occur
    if op in ("linear_rectangular", "linear_triangular", "parzen") and draw(st.booleans()):
        bw = float(df * draw(gen.log_floats(0.3, 40)))
    translate = None
    if draw(gen.chance(5)):
        # exactly representable grid (n and 1/dt powers of two), a linear-frequency kernel whose edges fall exactly on
        # bins: the kernel depends on f - fc only, so moving centre and spectrum by m bins must not change the output
        n = 2 ** draw(st.sampled_from([7, 9, 11, 12, 13, 14]))
        dt = draw(st.sampled_from([1 / 128, 1 / 256, 1 / 64, 1 / 512]))
        nf, f = n // 2 + 1, np.fft.rfftfreq(n, dt)
        df = float(f[1])
        op = draw(gen.choice(["linear_rectangular", "linear_triangular", "parzen", "linear_rectangular"]))
        half = draw(st.sampled_from([1, 2, 3, 8, 20, 64]))
        bw = float(2 * half * df) if op != "parzen" else float(df * draw(st.sampled_from([1, 2, 4, 16])))
        translate = dict(half=half, centre=draw(gen.floats(0.05, 0.95)), spike=draw(st.sampled_from(["edges", "edges", "none"])))
    rows = draw(st.lists(spectrum_recipe(), min_size=1, max_size=5))
    fc_desc = draw(st.lists(st.one_of(
        st.tuples(st.just("bin"), st.integers(0, nf - 1)),
        st.tuples(st.just("off"), gen.floats(0, 1.0)),
        st.tuples(st.just("low"), gen.floats(0, 3.0)),
        st.tuples(st.just("zero"), st.just(0)),
        st.tuples(st.just("tiny"), gen.floats(0, 2e-6)),
        st.tuples(st.just("nyq"), st.just(0)),
        st.tuples(st.just("above"), gen.floats(1.0, 1.5)),
        # below the first bin of an FFT grid means below 0 Hz (kernels in linear frequency and Savitzky-Golay only)
        st.tuples(st.just("neg" if op in ("linear_rectangular", "linear_triangular", "parzen", "savitzky_and_golay") else "low"), gen.floats(0, 3.0)),
    ), min_size=1, max_size=16))
    fcs = []
    for kind, v in fc_desc:
        if kind == "bin":
            fcs.append(float(f[v]))
        elif kind == "off":
            fcs.append(float(v * f[-1]))
        elif kind == "low":
            fcs.append(float(v * df))
        elif kind == "neg":
            fcs.append(float(-(0.2 + 4 * v) * df * (1 + (bw / df if op != "savitzky_and_golay" else bw))))
        elif kind == "zero":
            fcs.append(0.0)
        elif kind == "tiny":
            fcs.append(float(v))
        elif kind == "nyq":
            fcs.append(float(f[-1]))
        else:
            fcs.append(float(v * f[-1]))
    if draw(st.booleans()):
        fcs = sorted(fcs)
    alpha = draw(st.sampled_from([0.0, 1.0, 0.5, 3.0, 1e-3]))
    beta = draw(st.sampled_from([1.0, 2.0, 0.25, 7.0]))
    perm_seed = draw(st.integers(0, 1000))
    poly = [draw(gen.floats(-2, 2)) for _ in range(4)]
    const = draw(st.one_of(gen.floats(0, 5), gen.log_floats(1e-9, 1e9)))
    # storage type of the spectrum handed to the operator (counts are integers; single precision is common)
    dtype = draw(gen.choice(["float64", "float64", "float64", "float32", "int64", "int32", "uint16", "float64"]))
    return dict(n=n, dt=dt, op=op, bw=bw, rows=rows, fcs=fcs, alpha=alpha, beta=beta,
                perm_seed=perm_seed, poly=poly, const=const, dtype=dtype, translate=translate)


BIG = {"quick": 24, "thorough": 240}


@st.composite
def strategy_big(draw):
    """FFT grids of long windows: n = 2^13 .. 2^18 samples (4 097 .. 131 073 bins), 1-3 rows, up to 8 centre frequencies."""
    case = draw(strategy())
    n = draw(gen.big_size(2 ** 13, 2 ** 18))
    tr = case.get("translate")
    if tr:
        n = 2 ** draw(st.sampled_from([13, 14, 15, 16, 17]))      # keep the grid exactly representable
    f = np.fft.rfftfreq(n, case["dt"])
    nf = len(f)
    df = float(f[1])
    if case["op"] in ("linear_rectangular", "linear_triangular", "parzen") and not tr:
        case["bw"] = float(df * draw(gen.log_floats(0.5, 400)))
    elif tr and case["op"] != "parzen":
        case["bw"] = float(2 * tr["half"] * df)
    elif tr:
        case["bw"] = float(df * draw(st.sampled_from([1, 2, 4, 16])))
    kinds = draw(st.lists(st.tuples(st.sampled_from(["bin", "bin", "off", "low", "nyq"]), gen.floats(0, 1)), min_size=1, max_size=8))
    fcs = []
    for kind, v in kinds:
        if kind == "bin":
            fcs.append(float(f[int(v * (nf - 1))]))
        elif kind == "off":
            fcs.append(float(v * f[-1]))
        elif kind == "low":
            fcs.append(float(3 * v * df))
        else:
            fcs.append(float(f[-1]))
    case.update(n=n, fcs=sorted(fcs) if draw(st.booleans()) else fcs, rows=case["rows"][:3], big=True)
    return case


# -- check ------------------------------------------------------------------

def _ops():
    from hvsrpy.smoothing import SMOOTHING_OPERATORS
    return SMOOTHING_OPERATORS


def warmup():
    ops = _ops()
    f = np.fft.rfftfreq(64, 0.01)
    s = np.ones((2, len(f)))
    for name, fn in ops.items():
        for dt_ in ("float64", "float32", "int64", "int32", "uint16"):
            fn(f, s.astype(dt_), np.array([5.0, 10.0]), 9 if name == "savitzky_and_golay" else gen.DEFAULT_BW[name])


def check_case(case):
    ops = _ops()
    op, bw, n, dt = case["op"], case["bw"], case["n"], case["dt"]
    fn = ops[op]
    f = np.fft.rfftfreq(n, dt)
    nf = len(f)
    spec = np.array([expand_spectrum(r, nf) for r in case["rows"]])
    dtype = case.get("dtype", "float64")
    if dtype != "float64":
        # the values are first made representable in the storage type; the reference works on exactly those values
        if dtype == "float32":
            stored = spec.astype(np.float32)
        else:
            top = np.iinfo(dtype).max
            m = float(np.max(spec))
            stored = np.round(spec / m * min(top, 60000) if m > 0 else spec).astype(dtype)
        spec_in = stored
        spec = stored.astype(np.float64)
    else:
        spec_in = spec
    fcs = np.array(case["fcs"], dtype=float)
    labels = [op, f"dtype={dtype}"] + (["big-2^%d-bins" % int(math.log2(nf))] if case.get("big") else [])
    # single-precision storage: the compiled kernels may accumulate in single precision (numba's scalar x float32-array rule)
    RT = 1e-9 if dtype != "float32" else 3e-5
    RT12 = 1e-12 if dtype != "float32" else 3e-5
    scale = max(float(np.max(np.abs(spec))), 1e-300)

    out = sut(fn, f, spec_in, fcs, bw, what=op)
    out = np.asarray(out)
    require(isinstance(out, np.ndarray) and out.shape == (spec.shape[0], len(fcs)),
            f"{op}: output shape {getattr(out, 'shape', None)} != {(spec.shape[0], len(fcs))}")
    ref, amb = oracle.ref_smooth(op, f, spec, fcs, bw)
    keep = ~amb
    if amb.any():
        labels.append("boundary-ambiguous-centre")
    # (a) reference model
    if not close(out[:, keep], ref[:, keep], rtol=RT, atol=RT12 * scale):
        j = int(np.argmax(np.max(np.abs(out[:, keep] - ref[:, keep]), axis=0)))
        jj = int(np.flatnonzero(keep)[j])
        raise Violation(f"{op}(bw={bw}) differs from the published kernel average at fc={fcs[jj]!r}: "
                        f"got {out[:, jj].tolist()} expected {ref[:, jj].tolist()}",
                        fc=float(fcs[jj]), got=out[:, jj], expected=ref[:, jj])

    # window occupancy per centre (reference view)
    nonempty = np.zeros(len(fcs), dtype=bool)
    multi = np.zeros(len(fcs), dtype=bool)
    if op == "savitzky_and_golay":
        h = (int(bw) - 1) // 2
        pos = np.round((fcs - f[0]) / (f[1] - f[0])).astype(int)
        nonempty = (pos - h >= 1) & (pos + h <= nf - 1)
        multi = nonempty & (int(bw) >= 3)
    else:
        masks = []
        for j, fc in enumerate(fcs):
            m, _ = oracle.contributing(op, f, fc, bw)
            masks.append(m)
            nonempty[j] = m.any()
            multi[j] = m.sum() >= 2
    if (~nonempty).any():
        labels.append("has-empty-window")
        # zero where no spectral sample falls inside the window
        bad = keep & ~nonempty & np.any(out != 0, axis=0)
        if bad.any():
            raise Violation(f"{op}: non-zero output {out[:, bad][:, 0].tolist()} at fc={fcs[bad][0]!r} whose window is empty")
    if np.any(fcs == 0.0):
        labels.append("fc-at-0Hz")
    if np.any(np.isin(fcs, f[1:])):
        labels.append("on-grid-centre")
    if np.any(fcs > f[-1]):
        labels.append("fc-above-nyquist")
    if np.any(fcs < 0):
        labels.append("fc-below-0Hz")

    # (b) constant spectrum reproduced exactly
    c = case["const"]
    outc = sut(fn, f, np.full((2, nf), c), fcs, bw, what=op)
    sel = keep & nonempty
    # "exactly" = up to the rounding of sum(w*c)/sum(w) over at most a few thousand samples
    okc = close(outc[:, sel], c, rtol=1e-12, atol=1e-300)      # (constant spectrum is passed as float64)
    if not okc:
        raise Violation(f"{op}(bw={bw}): constant spectrum {c!r} not reproduced: {outc[:, sel].ravel()[:4].tolist()} at fcs {fcs[sel][:4].tolist()}")
    sel0 = keep & ~nonempty
    require(np.all(outc[:, sel0] == 0), f"{op}: constant spectrum gives non-zero where the window is empty")

    # (c) bounded by the contributing samples (non-negative kernels)
    if op != "savitzky_and_golay":
        for j in np.flatnonzero(keep & nonempty):
            lo = spec[:, masks[j]].min(axis=1)
            hi = spec[:, masks[j]].max(axis=1)
            tol = RT12 * np.abs(hi) + 1e-300   # subnormal samples lose precision
            if np.any(out[:, j] < lo - tol) or np.any(out[:, j] > hi + tol):
                raise Violation(f"{op}: output {out[:, j].tolist()} at fc={fcs[j]!r} outside [min, max] of contributing samples "
                                f"[{lo.tolist()}, {hi.tolist()}]")
    else:
        # (d) cubic polynomials are reproduced at the (rounded) centre bin
        a0, a1, a2, a3 = case["poly"]
        x = (f - f[nf // 2]) / (f[-1] - f[0])
        p = a0 + a1 * x + a2 * x ** 2 + a3 * x ** 3
        outp = sut(fn, f, p[None, :], fcs, bw, what=op)
        idx = np.clip(pos, 0, nf - 1)
        sel = keep & nonempty
        pscale = max(float(np.max(np.abs(p))), 1e-300)
        if not close(outp[0, sel], p[idx][sel], rtol=0, atol=1e-9 * pscale):
            raise Violation(f"savitzky_and_golay(m={bw}) does not reproduce the cubic {case['poly']}: max error "
                            f"{np.max(np.abs(outp[0, sel] - p[idx][sel])):.3g} (scale {pscale:.3g})")
        labels.append("sg-poly")
        # documented refusals: even bandwidth, non-uniform grid
        from ..core import Refusal
        for bad_bw, grid, why in ((int(bw) + 1, f, "an even bandwidth"), (int(bw), np.concatenate([f[:-1], [f[-1] * 1.5]]), "a non-uniform frequency grid")):
            try:
                sut(fn, grid, spec[:1], fcs, bad_bw, allow=(ValueError,), what=op)
                raise Violation(f"savitzky_and_golay accepted {why} instead of raising ValueError")
            except Refusal:
                pass

    # (e) linearity
    if spec.shape[0] >= 2:
        al, be = case["alpha"], case["beta"]
        comb = al * spec[0] + be * spec[1]
        outl = sut(fn, f, comb[None, :], fcs, bw, what=op)
        expect = al * out[0] + be * out[1]
        require(close(outl[0, keep], expect[keep], rtol=RT, atol=RT12 * max(float(np.max(np.abs(comb))), 1e-300)),
                f"{op}: not linear: op({al}*S1+{be}*S2) != {al}*op(S1)+{be}*op(S2); rel err {rel_err(outl[0, keep], expect[keep]):.3g}")
        # (f) row independence, bit for bit
        for i in range(spec.shape[0]):
            alone = sut(fn, f, spec_in[i:i + 1].copy(), fcs, bw, what=op)
            if not same_bits(alone[0], out[i]):
                raise Violation(f"{op}: row {i} smoothed alone differs from the same row smoothed jointly "
                                f"(max abs diff {np.max(np.abs(alone[0] - out[i])):.3g})")
        perm = np.random.Generator(np.random.PCG64(case["perm_seed"])).permutation(spec.shape[0])
        outp = sut(fn, f, spec_in[perm].copy(), fcs, bw, what=op)
        require(same_bits(outp, out[perm]), f"{op}: permuting the rows does not permute the output")
        labels.append("multi-row")

    # (g) compiled vs interpreted source
    pyf = getattr(fn, "py_func", None)
    if op == "savitzky_and_golay":
        from hvsrpy import smoothing as sm
        core_fn = sm._savitzky_and_golay
        m = int(bw)
        nterms = ((m - 1) // 2) + 1
        coefficients = np.array([((3 * m * m - 7 - 20 * abs(i * i)) / 4) for i in range(-(nterms - 1), 1)], dtype=float)
        norm = (m * (m * m - 4) / 3)
        a = sut(core_fn, spec, pos.astype(np.int64), coefficients, norm, what="_savitzky_and_golay")
        if hasattr(core_fn, "py_func"):
            b = sut(core_fn.py_func, spec, pos.astype(np.int64), coefficients, norm, what="_savitzky_and_golay.py_func")
            require(close(a, b, rtol=RT12, atol=max(RT12, 1e-14) * scale), "savitzky_and_golay: compiled core differs from its interpreted source")
            labels.append("compiled-vs-interpreted")
    elif pyf is not None:
        sub = np.arange(len(fcs))
        if nf * len(fcs) > 12000:
            sub = sub[:max(1, 12000 // nf)]
        b = sut(pyf, f, spec_in, fcs[sub], bw, what=op + ".py_func")
        require(close(out[:, sub], b, rtol=RT12, atol=max(RT12, 1e-14) * scale),
                f"{op}: compiled kernel differs from its interpreted source (rel err {rel_err(out[:, sub], b):.3g})")
        labels.append("compiled-vs-interpreted")

    # (h) translation invariance of the linear-frequency kernels on an exactly representable grid
    tr = case.get("translate")
    if tr:
        w0, _ = oracle.ref_weights(op, f, float(f[nf // 2]), bw)
        reach = int(np.max(np.abs(np.flatnonzero(w0 > 0) - nf // 2))) + 1          # half-width of the window in bins (+1)
        if nf - 2 * reach - 4 > 8:
            b = reach + 2 + int(tr["centre"] * (nf - 2 * reach - 5))
            row = spec[0].copy()
            if tr["spike"] == "edges":
                spike = 50.0 * max(float(row.max()), 1e-300)
                for e, k_ in ((b - reach + 1, 1.0), (b + reach - 1, 1.7), (b - reach, 1.0), (b + reach, 1.7)):
                    row[e] += k_ * spike
            base = sut(fn, f, row[None, :], np.array([f[b]]), bw, what=op)[0, 0]
            # the kernels are even functions of f - fc: mirroring the spectrum about the centre bin changes nothing
            mirrored = row.copy()
            mirrored[b - reach:b + reach + 1] = row[b - reach:b + reach + 1][::-1]
            refl = sut(fn, f, mirrored[None, :], np.array([f[b]]), bw, what=op)[0, 0]
            if not close(refl, base, rtol=1e-12, atol=1e-300):
                raise Violation(f"{op}(bw={bw}) on the grid rfftfreq({n}, {dt}): the output at bin {b} is {base!r}, but {refl!r} when the spectrum is "
                                f"mirrored about that bin; the kernel is an even function of f - fc")
            labels.append("reflection-symmetry")
            lo_e, hi_e = b - reach + 1, b + reach - 1                                  # outermost bins that may carry weight
            shifts = set()
            for j in range(1, int(math.log2(nf)) + 1):
                for t in (2 ** j - 1, 2 ** j, 2 ** j + 1):
                    shifts.update((t - lo_e, t - hi_e, t - b))
            shifts = sorted(m for m in shifts if m != 0 and b + m - reach >= 1 and b + m + reach <= nf - 2)
            for m in shifts:
                moved = sut(fn, f, np.roll(row, m)[None, :], np.array([f[b + m]]), bw, what=op)[0, 0]
                if not close(moved, base, rtol=1e-12, atol=1e-300):
                    raise Violation(f"{op}(bw={bw}) on the grid rfftfreq({n}, {dt}): the output at bin {b} ({base!r}) changes to {moved!r} when "
                                    f"centre and spectrum are both moved by {m} bins (window bins {lo_e + m}..{hi_e + m}); "
                                    f"the kernel is a function of f - fc only")
            labels.append("translation-invariance")
            labels.append(f"translation-shifts>={min(len(shifts), 8)}")

    nonconst = bool(np.any(np.ptp(spec, axis=1) > 0))
    nontrivial = nonconst and bool(np.any(multi & keep))
    return dict(labels=labels, nontrivial=nontrivial)
