"""C08 - Reported peaks are the highest local maximum inside the search range."""
import math

import numpy as np
from hypothesis import strategies as st

from .. import gen, oracle
from ..core import Violation, Refusal, require, sut

ID = "C08"
RULE = ("Cases: a frequency grid (geometric / linear / irregular, 4-60 points), 1-6 curves (smooth bumps, noisy, monotone, "
        "flat, small-integer valued with ties and plateaus, plateaus touching an end) and a history of 1-6 search-range "
        "updates (None, on-grid, off-grid, inverted, beyond the grid, equal ends; bounds drawn preferentially 1-3 samples "
        "from a local maximum; ranges passed as tuples or as one re-used list mutated in place) applied to HvsrCurve, "
        "HvsrTraditional, HvsrAzimuthal and HvsrDiffuseField objects built from the same curves. Non-trivial = some curve has "
        ">= 2 local maxima and some bounded range excludes at least one of them; distinct by SHA-1 of the case."
        ' Grids are stored ascending or descending; limits include inf/1e20/1e300/0/-inf/1e-300 and near-collision variants of the previous limits.')
ASSUMPTIONS = [
    "a bound between two samples may be snapped either way: a maximum must be reported only if it lies, with both neighbours, inside the narrowest admissible slice (MUST set); a reported peak must lie strictly inside the range in Hz (MAY set)",
    "a bound at or beyond the first/last frequency behaves as an open end on that side",
    "local maxima follow the plateau rule of scipy.signal.find_peaks (re-implemented independently in oracle.local_max_runs)",
]
BUDGET = {"quick": 2400, "thorough": 60000}
SHARDS = {"quick": 8, "thorough": 16}
TECHNIQUE = "property-based history testing (model-based): independent plateau-aware peak model with MUST/MAY sets over range-update sequences"


@st.composite
def curve_recipe(draw):
    kind = draw(gen.choice(["bumps", "bumps", "noisy", "monotone", "flat", "ints", "ints", "plateau-end"]))
    r = dict(kind=kind)
    if kind in ("bumps", "noisy"):
        r["bumps"] = draw(st.lists(st.tuples(gen.floats(0.02, 0.98), gen.floats(0.5, 6), gen.floats(0.02, 0.3)), min_size=0, max_size=3))
        r["base"] = draw(gen.floats(0.5, 2))
    if kind == "noisy":
        r["seed"] = draw(gen.seeds32)
        r["noise"] = draw(st.sampled_from([0.02, 0.1, 0.5]))
    if kind == "monotone":
        r["up"] = draw(st.booleans())
    if kind == "flat":
        r["value"] = draw(gen.floats(0.5, 3))
    if kind in ("ints", "plateau-end"):
        r["seed"] = draw(gen.seeds32)
        r["levels"] = draw(st.integers(2, 4))
    return r


def expand_curve(r, n):
    x = np.linspace(0, 1, n)
    k = r["kind"]
    if k in ("bumps", "noisy"):
        a = np.full(n, r["base"])
        for c, h, w in r["bumps"]:
            a = a + h * np.exp(-0.5 * ((x - c) / w) ** 2)
        if k == "noisy":
            a = a * np.exp(r["noise"] * np.random.Generator(np.random.PCG64(r["seed"])).standard_normal(n))
        return a
    if k == "monotone":
        return np.linspace(1, 3, n) if r["up"] else np.linspace(3, 1, n)
    if k == "flat":
        return np.full(n, r["value"])
    g = np.random.Generator(np.random.PCG64(r["seed"]))
    a = g.integers(1, r["levels"] + 1, size=n).astype(float)
    if k == "plateau-end":
        m = int(g.integers(1, max(2, n // 3)))
        a[-m:] = r["levels"] + 1.0
        a[:int(g.integers(1, max(2, n // 3)))] = r["levels"] + 1.0
    return a


@st.composite
def strategy(draw):
    n = draw(st.one_of(st.integers(4, 20), st.integers(4, 60)))
    gkind = draw(gen.choice(["geom", "lin", "irregular"]))
    if gkind == "geom":
        f = np.geomspace(draw(gen.floats(0.1, 1)), draw(gen.floats(5, 50)), n)
    elif gkind == "lin":
        f = np.linspace(draw(gen.floats(0.1, 1)), draw(gen.floats(5, 50)), n)
    else:
        g = np.random.Generator(np.random.PCG64(draw(gen.seeds32)))
        f = np.cumsum(g.uniform(0.05, 1.0, size=n)) + 0.1
    f = [float(v) for v in f]
    curves = draw(st.lists(curve_recipe(), min_size=1, max_size=6))
    # local maxima of the generated curves, to aim bounds next to them
    maxima = sorted({q for c in curves for (_, _, q) in oracle.local_max_runs(expand_curve(c, n))})

    def bound():
        kind = draw(st.sampled_from(["none", "grid", "off", "near-peak", "near-peak", "below", "above", "end", "far"]))
        if kind == "none":
            return None
        if kind == "far":       # "no limit" written as a number
            return draw(st.sampled_from([float("inf"), 1e20, 1e300, -float("inf"), -1e20, 0.0, 1e-300]))
        if kind == "grid":
            return f[draw(st.integers(0, n - 1))]
        if kind == "near-peak" and maxima:
            q = draw(st.sampled_from(maxima)) + draw(st.sampled_from([-3, -2, -1, 1, 2, 3]))
            q = min(max(q, 0), n - 1)
            if draw(st.booleans()):
                return f[q]
            j = min(q + 1, n - 1)
            t = draw(gen.floats(0.1, 0.9))
            return f[q] + t * (f[j] - f[q])
        if kind == "below":
            return f[0] * draw(gen.floats(0.1, 0.99))
        if kind == "above":
            return f[-1] * draw(gen.floats(1.01, 3))
        if kind == "end":
            return draw(st.sampled_from([f[0], f[-1]]))
        i = draw(st.integers(0, n - 2))
        t = draw(st.one_of(gen.floats(0.05, 0.45), gen.floats(0.55, 0.95)))
        return f[i] + t * (f[i + 1] - f[i])

    steps = []
    for _ in range(draw(st.integers(1, 6))):
        lo, hi = bound(), bound()
        if lo is not None and hi is not None and lo > hi and draw(st.booleans()):
            lo, hi = hi, lo
        if steps and draw(gen.chance(4)):
            # the previous range with one limit replaced by a value a lossy cache key would confuse with it
            lo, hi = steps[-1]["range"]
            how = draw(gen.choice(gen.COLLIDERS))
            which = draw(st.sampled_from([0, 1]))
            if [lo, hi][which] is None:
                which = 1 - which
            if [lo, hi][which] is not None:
                v = gen.collide([lo, hi][which], how)
                lo, hi = (v, hi) if which == 0 else (lo, v)
        steps.append(dict(range=[lo, hi], how=draw(st.sampled_from(["tuple", "tuple", "list", "same-list", "same-list"])),
                          kw=draw(st.sampled_from(["none", "empty", "empty"])),
                          # the first member of the azimuthal result is given the new range on its own, before the
                          # result as a whole (seeded change C08-R6B: an early return keyed on member 0's state)
                          member_first=draw(gen.chance(3))))
    # stored order of the grid: ascending, or descending (centre frequencies may be requested in descending order and
    # curves tabulated by period arrive that way)
    return dict(f=f, curves=curves, steps=steps, descending=draw(gen.chance(5)))


BIG = {"quick": 16, "thorough": 160}


@st.composite
def strategy_big(draw):
    """Finely sampled curves: 2^9 .. 2^14 frequencies (a raw FFT grid instead of a few dozen centre frequencies)."""
    case = draw(strategy())
    n0 = len(case["f"])
    n = draw(gen.big_size(2 ** 9, 2 ** 14))
    f0, f1 = case["f"][0], case["f"][-1]
    fnew = np.geomspace(f0, f1, n) if draw(st.booleans()) else np.linspace(f0, f1, n)
    old = np.array(case["f"])

    def remap(v):
        # a limit keeps its relation to the grid: on a sample stays on a sample, between samples stays between
        if v is None or not math.isfinite(v) or v <= f0 or v >= f1:
            return v
        i = int(np.argmin(np.abs(old - v)))
        j = int(round(i * (n - 1) / max(n0 - 1, 1)))
        return float(fnew[j]) if old[i] == v else float(0.5 * (fnew[min(j, n - 2)] + fnew[min(j, n - 2) + 1]))
    for stp in case["steps"]:
        stp["range"] = [remap(v) for v in stp["range"]]
    case.update(f=[float(v) for v in fnew], curves=case["curves"][:4], big=True)
    return case


def _in_sets(f, a, lo_b, hi_b, mirror=False):
    """MUST / MAY sets of run representatives for the range (lo_b, hi_b).  ``mirror``: the curve is stored in
    descending order, so the representative of an even-length plateau is its other middle sample."""
    n = len(f)
    runs = oracle.local_max_runs(a)
    if mirror:
        runs = [(i, j, (i + j + 1) // 2) for (i, j, q) in runs]
    flo = -math.inf if lo_b is None else lo_b
    fhi = math.inf if hi_b is None else hi_b
    lo_edge = 0 if lo_b is None else max(oracle.nearest_index(f, lo_b))
    if hi_b is None:
        hi_edge = n - 1
    else:
        hi_near = min(oracle.nearest_index(f, hi_b))
        hi_edge = hi_near - 1          # narrowest reading: exclusive end
        if hi_b >= f[-1]:
            hi_edge = n - 1            # at/beyond the last sample: open end
    if lo_b is not None and lo_b <= f[0]:
        lo_edge = 0
    must = [q for (i, j, q) in runs if i - 1 >= lo_edge and j + 1 <= hi_edge and flo < f[q] < fhi]
    may = [q for (i, j, q) in runs if flo < f[q] < fhi]
    return must, may


def _check_peak(what, f, a, rng, pf, pa, mirror=False):
    must, may = _in_sets(f, a, rng[0], rng[1], mirror)
    if pf is None or (isinstance(pf, float) and math.isnan(pf)):
        if must:
            q = max(must, key=lambda q: a[q])
            raise Violation(f"{what}: no peak reported for range {rng}, but the local maximum at {f[q]!r} Hz (amplitude {a[q]!r}) lies inside it with both neighbours",
                            frequency=list(f), amplitude=list(a))
        return "no-peak"
    idx = np.flatnonzero(np.asarray(f) == pf)
    if len(idx) != 1:
        raise Violation(f"{what}: reported peak frequency {pf!r} is not a sample of the frequency vector")
    p = int(idx[0])
    if p not in may:
        raise Violation(f"{what}: reported peak at {pf!r} Hz (index {p}) is not a local maximum strictly inside the range {rng}",
                        frequency=list(f), amplitude=list(a))
    if a[p] != pa:
        raise Violation(f"{what}: reported amplitude {pa!r} is not the curve's value {a[p]!r} at the reported frequency {pf!r}")
    if must and pa < max(a[q] for q in must):
        q = max(must, key=lambda q: a[q])
        raise Violation(f"{what}: reported peak {pf!r} Hz / {pa!r} but the local maximum at {f[q]!r} Hz inside range {rng} is higher ({a[q]!r})",
                        frequency=list(f), amplitude=list(a))
    return "peak"


def _same(x, y):
    return (x == y) or (isinstance(x, float) and isinstance(y, float) and math.isnan(x) and math.isnan(y))


def check_case(case):
    import hvsrpy as hv
    f = np.array(case["f"], dtype=float)
    n = len(f)
    A = np.array([expand_curve(c, n) for c in case["curves"]])
    labels = []
    desc = bool(case.get("descending"))
    fs_, As_ = (f[::-1].copy(), A[:, ::-1].copy()) if desc else (f, A)      # as stored in the objects; the oracle works on (f, A)
    if desc:
        labels.append("descending-grid")
    if case.get("big"):
        labels.append("big-2^%d-frequencies" % int(math.log2(n)))
    singles = [hv.HvsrCurve(fs_, a) for a in As_]
    trad = hv.HvsrTraditional(fs_, As_)
    azi = hv.HvsrAzimuthal([hv.HvsrTraditional(fs_, As_), hv.HvsrTraditional(fs_, As_[::-1])], [0.0, 90.0])
    dfield = hv.HvsrDiffuseField(fs_, As_[0])
    shared = [None, None]
    nontrivial = False
    multi = [len(oracle.local_max_runs(a)) >= 2 for a in A]

    def verify(rng, step):
        nonlocal nontrivial
        has_peak = []
        for i, (c, a) in enumerate(zip(singles, A)):
            pf, pa = float(c.peak_frequency), float(c.peak_amplitude)
            kind = _check_peak(f"step {step}: HvsrCurve {i}", f, a, rng, pf, pa, desc)
            has_peak.append(kind == "peak")
            # beyond-grid bounds behave as open ends
            lo, hi = rng
            eq = [None if (lo is not None and lo <= f[0]) else lo, None if (hi is not None and hi >= f[-1]) else hi]
            if eq != list(rng):
                ref = hv.HvsrCurve(fs_, a[::-1] if desc else a)
                ref.update_peaks_bounded(tuple(eq))
                if not _same(float(ref.peak_frequency), pf):
                    raise Violation(f"step {step}: curve {i}: range {tuple(rng)} reaches beyond the grid [{f[0]!r}, {f[-1]!r}] but gives peak {pf!r}, "
                                    f"while the open-ended range {tuple(eq)} gives {float(ref.peak_frequency)!r}", frequency=f, amplitude=a)
            must, may = _in_sets(f, a, rng[0], rng[1], desc)
            if multi[i] and (rng[0] is not None or rng[1] is not None) and len(may) < len(oracle.local_max_runs(a)):
                nontrivial = True
        # traditional / azimuthal rows agree with the single curves, bit for bit
        for name, obj, order in (("HvsrTraditional", trad, range(len(A))), ("HvsrAzimuthal[0]", azi.hvsrs[0], range(len(A))),
                                 ("HvsrAzimuthal[1]", azi.hvsrs[1], range(len(A) - 1, -1, -1))):
            for row, i in enumerate(order):
                pf, pa = float(obj._main_peak_frq[row]), float(obj._main_peak_amp[row])
                if not (_same(pf, float(singles[i].peak_frequency)) and _same(pa, float(singles[i].peak_amplitude))):
                    raise Violation(f"step {step}: {name} window {row} reports peak ({pf!r}, {pa!r}) but the same curve as HvsrCurve reports "
                                    f"({float(singles[i].peak_frequency)!r}, {float(singles[i].peak_amplitude)!r}) for range {tuple(rng)}")
            hp = np.array([has_peak[i] for i in order])
            if not np.array_equal(np.asarray(obj.valid_peak_boolean_mask), hp):
                raise Violation(f"step {step}: {name}: valid_peak mask {np.asarray(obj.valid_peak_boolean_mask).tolist()} after the range update, windows with a peak: {hp.tolist()}")
            want_window = hp if hp.any() else np.ones(len(hp), dtype=bool)
            if not np.array_equal(np.asarray(obj.valid_window_boolean_mask), want_window):
                raise Violation(f"step {step}: {name}: valid_window mask {np.asarray(obj.valid_window_boolean_mask).tolist()}, expected {want_window.tolist()}")
            raw_pf = obj.peak_frequencies
            pfs = np.array(raw_pf, dtype=float, copy=True)
            if isinstance(raw_pf, np.ndarray) and raw_pf.flags.writeable and raw_pf.ndim == 1:
                raw_pf[...] = -1.0           # returned arrays belong to the caller; scribbling on them must not change later answers
            want = np.array([float(singles[i].peak_frequency) for i in order if has_peak[i]])
            if not (len(pfs) == len(want) and np.array_equal(pfs, want)):
                raise Violation(f"step {step}: {name}.peak_frequencies = {pfs.tolist()} but the windows with a peak in range {tuple(rng)} have {want.tolist()}")
        # peak of the mean curve under the *current* range
        for name, obj in (("HvsrTraditional", trad), ("HvsrAzimuthal", azi)):
            if name == "HvsrAzimuthal" and not any(has_peak):
                continue    # azimuthal statistics need >= 1 accepted window per azimuth (C11's domain)
            for dist in ("lognormal", "normal"):
                raw_mc = obj.mean_curve(dist)
                mc = np.array(raw_mc, dtype=float, copy=True)
                mc = mc[::-1] if desc else mc
                if isinstance(raw_mc, np.ndarray) and raw_mc.flags.writeable:
                    raw_mc[...] = -1.0
                try:
                    mf, ma = sut(obj.mean_curve_peak, dist, allow=(ValueError,), what=f"{name}.mean_curve_peak")
                    mf, ma = float(mf), float(ma)
                except Refusal:
                    mf, ma = math.nan, math.nan
                _check_peak(f"step {step}: {name}.mean_curve_peak({dist})", f, mc, rng, mf, ma, desc)
        try:
            mf, ma = sut(dfield.mean_curve_peak, None, tuple(rng), allow=(ValueError,), what="HvsrDiffuseField.mean_curve_peak")
            mf, ma = float(mf), float(ma)
        except Refusal:
            mf, ma = math.nan, math.nan
        _check_peak(f"step {step}: HvsrDiffuseField.mean_curve_peak", f, A[0], rng, mf, ma, desc)
        _check_peak(f"step {step}: HvsrDiffuseField", f, A[0], rng, float(dfield.peak_frequency), float(dfield.peak_amplitude), desc)

    verify((None, None), 0)
    for step, s in enumerate(case["steps"], start=1):
        lo, hi = s["range"]
        if s["how"] == "tuple":
            arg = (lo, hi)
        elif s["how"] == "list":
            arg = [lo, hi]
        else:
            shared[0], shared[1] = lo, hi      # the same list object, edited in place between calls
            arg = shared
            labels.append("same-list-reused")
        kw = None if s.get("kw", "none") == "none" else {}     # {} is the documented equivalent of None
        if s.get("member_first"):
            sut(azi.hvsrs[0].update_peaks_bounded, (lo, hi), kw, what="HvsrAzimuthal.hvsrs[0].update_peaks_bounded")
            labels.append("member-updated-before-the-azimuthal-result")
        for obj in singles + [trad, azi, dfield]:
            sut(obj.update_peaks_bounded, arg, kw, what=f"{type(obj).__name__}.update_peaks_bounded")
        verify((lo, hi), step)
        for obj in (trad, azi, dfield):
            sr = obj.meta.get("search_range_in_hz")
            require(sr is not None and list(sr) == [lo, hi], f"step {step}: {type(obj).__name__}.meta['search_range_in_hz'] = {sr!r} after update to {(lo, hi)}")
        if step >= 2:
            labels.append("second-update")
        if lo is not None and hi is not None and lo >= hi:
            labels.append("inverted-or-empty")
        if (lo is not None and lo < f[0]) or (hi is not None and hi > f[-1]):
            labels.append("beyond-grid")
    if any(c["kind"] in ("ints", "plateau-end") for c in case["curves"]):
        labels.append("ties-plateaus")
    return dict(labels=sorted(set(labels)), nontrivial=nontrivial)
