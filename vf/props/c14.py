"""C14 - Spatial weights are nearest-sensor area fractions; Monte-Carlo fn uses them."""
import math

import numpy as np
from hypothesis import strategies as st

from .. import gen
from ..core import Violation, Refusal, require, sut, close, same_bits, rel_err

ID = "C14"
RULE = ("Cases (layout): 4-14 distinct sensors (pairwise separation >= 1e-3 of the extent, extent 1..1000, common offset up "
        "to 1e4 x extent) and a boundary of 3-9 points whose convex hull is the region, of a size from 1x to 1000x the array "
        "aperture, placed so that 0-4 sensors fall outside and none within 1e-6 x extent of the hull; a permutation, a "
        "translation and a power-of-two scaling. Cases (Monte-Carlo): 2-8 generators with means, standard deviations >= 0, "
        "weights > 0, the four distribution combinations, 1-400 realisations, a seed. Non-trivial = at least one sensor is "
        "culled and at least one cell is cut by the boundary, or weights and means are unequal; distinct by SHA-1 of the case."
        ' Layout patterns: random, grid, cluster, loose line, tight line array (lateral scatter 1e-5-1e-2 of the extent).')
ASSUMPTIONS = [
    "layouts stay away from degeneracy (duplicate sensors, sensors on the boundary) where nearest-sensor regions are not unique",
    "boundary extents stay below 1e4 so that the code's fixed 1e6 'far point' radius lies outside the boundary (the quantifier's relative-coordinate regime)",
    "area comparison |dw| <= 1e-6 (2e-5 for tight line arrays); invariances likewise; Monte-Carlo formulas rtol 1e-10",
]
BUDGET = {"quick": 1200, "thorough": 30000}
SHARDS = {"quick": 8, "thorough": 16}
TECHNIQUE = "property-based testing: exact half-plane clipping reference (no Voronoi diagram), metamorphic invariances, explicit weighted Monte-Carlo statistics and zero-variance closed forms"


@st.composite
def strategy(draw):
    n = draw(st.integers(4, 14))
    return dict(
        layout=dict(n=n, seed=draw(gen.seeds32), extent=draw(gen.log_floats(1.0, 1000.0)), offset_exp=draw(gen.floats(0, 4)),
                    offset_dir=draw(gen.floats(0, 6.283)), nb=draw(st.integers(3, 9)), bseed=draw(gen.seeds32),
                    bscale=draw(st.one_of(gen.floats(0.9, 1.8), gen.floats(0.9, 1.8), gen.log_floats(1.0, 1000.0))), pattern=draw(gen.choice(["random", "grid", "cluster", "line-ish", "line-tight"])),
                    dev=draw(gen.log_floats(1e-5, 1e-2)),
                    perm_seed=draw(gen.seeds32), shift=[draw(gen.floats(-1e4, 1e4)), draw(gen.floats(-1e4, 1e4))], k=draw(st.sampled_from([-3, -1, 1, 4]))),
        mc=dict(m=draw(st.integers(2, 8)), seed=draw(gen.seeds32), dist_gen=draw(gen.choice(["lognormal", "normal"])),
                dist_sp=draw(gen.choice(["normal", "lognormal", "lognormal", "normal"])), n_real=draw(st.one_of(st.integers(1, 30), st.integers(1, 400))),
                rng_seed=draw(st.integers(0, 2 ** 31 - 1)), wscale=draw(st.sampled_from([0.5, 3.0, 7.3, 100.0])), equal=draw(gen.chance(5)),
                wtype=draw(gen.choice(["float64", "list", "int64", "int32-large", "uint16", "float64", "float32"]))))


BIG = {"quick": 16, "thorough": 160}


@st.composite
def strategy_big(draw):
    """Dense arrays: 15 .. 150 sensors (nodal deployments) and Monte-Carlo runs with 20 .. 400 generators."""
    case = draw(strategy())
    case["layout"]["n"] = draw(st.one_of(st.integers(15, 150), st.sampled_from([16, 25, 36, 64, 100, 144])))
    case["mc"]["m"] = draw(st.integers(20, 400))
    case["big"] = True
    return case


def expand_layout(L):
    g = np.random.Generator(np.random.PCG64(L["seed"]))
    n, E = L["n"], L["extent"]
    if L["pattern"] == "grid":
        side = int(math.ceil(math.sqrt(n)))
        pts = np.array([[i, j] for i in range(side) for j in range(side)][:n], dtype=float) / max(side - 1, 1) * 2 - 1
        pts += g.uniform(-0.05, 0.05, size=pts.shape)
    elif L["pattern"] == "cluster":
        pts = np.vstack([g.normal(0, 0.08, size=(n // 2, 2)) + [0.4, 0.3], g.uniform(-1, 1, size=(n - n // 2, 2))])
    elif L["pattern"] == "line-ish":
        x = np.linspace(-1, 1, n)
        pts = np.column_stack([x, 0.3 * x + g.uniform(-0.15, 0.15, size=n)])
    elif L["pattern"] == "line-tight":
        # a linear array: nearly, not exactly, collinear sensors (lateral scatter 1e-5 .. 1e-2 of the extent)
        x = np.linspace(-1, 1, n) + g.uniform(-0.3, 0.3, size=n) / n
        th = g.uniform(0, math.pi)
        lat = L.get("dev", 1e-3) * g.uniform(-1, 1, size=n)
        pts = np.column_stack([x * math.cos(th) - lat * math.sin(th), x * math.sin(th) + lat * math.cos(th)])
    else:
        pts = g.uniform(-1, 1, size=(n, 2))
    pts = pts * E
    off = np.array([math.cos(L["offset_dir"]), math.sin(L["offset_dir"])]) * E * (10.0 ** L["offset_exp"] - 1.0)
    gb = np.random.Generator(np.random.PCG64(L["bseed"]))
    ang = (np.arange(L["nb"]) + gb.uniform(-0.3, 0.3, size=L["nb"])) / L["nb"] * 2 * math.pi + gb.uniform(0, 6.28)
    # keep the region far inside the code's fixed 1e6 "far point" radius (the property's relative-coordinate regime)
    bscale = min(L["bscale"], 3e4 / (1.3 * E))
    rad = gb.uniform(0.75, 1.3, size=L["nb"]) * E * bscale
    bnd = np.column_stack([rad * np.cos(ang), rad * np.sin(ang)])
    return pts + off, bnd + off


def _hull(points):
    """Convex hull (CCW) by Andrew's monotone chain."""
    pts = sorted(set(map(tuple, points)))
    if len(pts) < 3:
        return pts

    def cross(o, a, b):
        return (a[0] - o[0]) * (b[1] - o[1]) - (a[1] - o[1]) * (b[0] - o[0])
    lower, upper = [], []
    for p in pts:
        while len(lower) >= 2 and cross(lower[-2], lower[-1], p) <= 0:
            lower.pop()
        lower.append(p)
    for p in reversed(pts):
        while len(upper) >= 2 and cross(upper[-2], upper[-1], p) <= 0:
            upper.pop()
        upper.append(p)
    return lower[:-1] + upper[:-1]


def _clip(poly, a, b):
    out = []
    m = len(poly)
    for i in range(m):
        p, q = poly[i], poly[(i + 1) % m]
        dp = a[0] * p[0] + a[1] * p[1] - b
        dq = a[0] * q[0] + a[1] * q[1] - b
        if dp <= 0:
            out.append(p)
        if (dp < 0 < dq) or (dq < 0 < dp):
            t = dp / (dp - dq)
            out.append((p[0] + t * (q[0] - p[0]), p[1] + t * (q[1] - p[1])))
    return out


def _area(poly):
    if len(poly) < 3:
        return 0.0
    x = np.array([p[0] for p in poly])
    y = np.array([p[1] for p in poly])
    return 0.5 * abs(float(np.dot(x, np.roll(y, -1)) - np.dot(y, np.roll(x, -1))))


def _signed_dist_inside(hull, p):
    """min distance of p to the hull's edges, negative if outside (hull CCW)."""
    d = math.inf
    m = len(hull)
    for i in range(m):
        a, b = hull[i], hull[(i + 1) % m]
        ex, ey = b[0] - a[0], b[1] - a[1]
        ln = math.hypot(ex, ey)
        d = min(d, (ex * (p[1] - a[1]) - ey * (p[0] - a[0])) / ln)
    return d


def ref_weights(coords, boundary):
    """(weights, indices, cells, min |distance to hull|, any cell cut by the boundary).  Works in coordinates
    centred on the hull for conditioning."""
    c0 = np.mean(boundary, axis=0)
    B = [tuple(np.asarray(b) - c0) for b in boundary]
    P = [tuple(np.asarray(c) - c0) for c in coords]
    hull = _hull(B)
    dists = [_signed_dist_inside(hull, p) for p in P]
    inside = [i for i, d in enumerate(dists) if d > 0]
    pts = [P[i] for i in inside]
    total = _area(hull)
    ws, cells, cut = [], [], False
    for i, p in enumerate(pts):
        poly = list(hull)
        for j, q in enumerate(pts):
            if i == j:
                continue
            a = (2 * (q[0] - p[0]), 2 * (q[1] - p[1]))
            mid = ((p[0] + q[0]) / 2, (p[1] + q[1]) / 2)
            poly = _clip(poly, a, a[0] * mid[0] + a[1] * mid[1])
        ws.append(_area(poly) / total)
        cells.append([(x + c0[0], y + c0[1]) for x, y in poly])
        if any(abs(_signed_dist_inside(hull, v)) < 1e-9 * math.sqrt(total) for v in poly):
            cut = True
    return np.array(ws), inside, cells, min(abs(d) for d in dists), cut, math.sqrt(total)


def check_layout(hv, L, labels):
    coords, boundary = expand_layout(L)
    E = L["extent"]
    # distinctness
    d = np.sqrt(((coords[:, None, :] - coords[None, :, :]) ** 2).sum(-1)) + np.eye(len(coords)) * 1e9
    if d.min() < 1e-3 * E:
        labels.append("layout-skipped-close-sensors")
        return False
    w_ref, idx_ref, cells, margin, cut, size = ref_weights(coords, boundary)
    # nearly collinear sensors have Voronoi vertices thousands of array lengths away: the library's polygon areas are then
    # good to about 1e-5 only (observed 1.1e-6 for 99 sensors), elsewhere to 1e-9
    wtol = 2e-5 if L["pattern"] == "line-tight" else 1e-6
    if margin < 1e-6 * E or len(idx_ref) < 4:
        labels.append("layout-skipped-degenerate")
        return False
    # The implementation closes unbounded cells with "points at infinity" 1e6 away.  For a sensor at a very sharp
    # corner of the sensor hull (interior angle a) the chord between its two far points passes at 1e6*sin(a/2);
    # the region must lie well inside that distance, otherwise the layout is outside the quantifier's regime.
    pin = [tuple(coords[i]) for i in idx_ref]
    hp = _hull(pin)
    cen = np.mean(np.array(pin), axis=0)
    rb = float(np.max(np.sqrt(((boundary - cen) ** 2).sum(axis=1))))
    amin = math.pi
    for i in range(len(hp)):
        a_, b_, c_ = np.array(hp[i - 1]), np.array(hp[i]), np.array(hp[(i + 1) % len(hp)])
        u, v = a_ - b_, c_ - b_
        cosang = float(np.dot(u, v) / (np.linalg.norm(u) * np.linalg.norm(v)))
        amin = min(amin, math.acos(max(-1.0, min(1.0, cosang))))
    if 1e6 * math.sin(amin / 2.0) < 5.0 * rb:
        labels.append("layout-skipped-region-vs-far-point")
        return False
    try:
        w, idx = sut(hv.HvsrSpatial(coords).spatial_weights, boundary, allow=(), what="HvsrSpatial.spatial_weights")
    except Exception:
        raise
    w = np.asarray(w, dtype=float)
    if list(idx) != list(idx_ref):
        raise Violation(f"retained sensor indices {list(idx)} differ from the sensors strictly inside the boundary hull {idx_ref}")
    require(np.all(w >= -1e-12), f"negative weight {w.min()!r}")
    if abs(w.sum() - 1.0) > wtol:
        raise Violation(f"weights sum to {w.sum()!r} (boundary about {size / (2 * E):.3g} x the array extent, offset 10^{L['offset_exp']:.2f} x extent)")
    if not np.all(np.abs(w - w_ref) <= wtol):
        j = int(np.argmax(np.abs(w - w_ref)))
        raise Violation(f"weight of sensor {idx_ref[j]} is {w[j]!r}, its nearest-sensor share of the boundary region is {w_ref[j]!r} "
                        f"(boundary about {size / (2 * E):.3g} x the array extent, {len(idx_ref)} of {len(coords)} sensors retained)")
    # polygons have those areas and contain their sensor
    regions, idx2 = sut(hv.HvsrSpatial(coords).bounded_voronoi, boundary, what="bounded_voronoi")
    require(list(idx2) == list(idx_ref) and len(regions) == len(idx_ref), "bounded_voronoi returns other sensors than spatial_weights")
    total = sum(_area([tuple(v) for v in reg]) for reg in regions)
    for reg, j, wj in zip(regions, idx_ref, w_ref):
        poly = [tuple(np.asarray(v, dtype=float) - coords[j]) for v in reg]
        a = _area(poly)
        require(abs(a / total - wj) <= wtol, f"bounded_voronoi polygon of sensor {j} has area share {a / total!r}, expected {wj!r}")
        hullp = _hull(poly)
        require(_signed_dist_inside(hullp, (0.0, 0.0)) > -1e-9 * size, f"bounded_voronoi polygon of sensor {j} does not contain the sensor")
    # one object used repeatedly (the documented workflow calls spatial_weights and bounded_voronoi on the same object):
    # the answer must follow the arguments and attributes of *this* call
    obj = hv.HvsrSpatial(coords)
    bnd = np.array(boundary, dtype=float)
    w_a, i_a = sut(obj.spatial_weights, bnd, what="spatial_weights (first call on an object)")
    sut(obj.bounded_voronoi, bnd, what="bounded_voronoi (same object)")
    require(list(i_a) == list(idx_ref) and np.array_equal(np.asarray(w_a), w), "the same call on a new object gives different weights")
    factor = 0.8 if L["k"] < 0 else 1.2
    cen_b = bnd.mean(axis=0)
    edited = (bnd - cen_b) * factor + cen_b
    w2_ref, idx2_ref, _, margin2, _, _ = ref_weights(coords, edited)
    if margin2 >= 1e-6 * E and len(idx2_ref) >= 4 and 1e6 * math.sin(amin / 2.0) >= 5.0 * rb * max(factor, 1.0) and (factor < 1 or len(idx2_ref) == len(idx_ref)):
        bnd -= cen_b
        bnd *= factor                   # the caller resizes its boundary array in place and asks again
        bnd += cen_b
        w_b, i_b = sut(obj.spatial_weights, bnd, what="spatial_weights (second call on an object)")
        if list(i_b) != list(idx2_ref) or not np.all(np.abs(np.asarray(w_b) - w2_ref) <= wtol):
            raise Violation(f"a second spatial_weights call on the same object, after the boundary array was resized in place (x{factor}), returns sensors {list(i_b)} with weights "
                            f"{np.round(np.asarray(w_b), 6).tolist()}; the nearest-sensor shares of the new region are {idx2_ref} / {np.round(w2_ref, 6).tolist()}")
        labels.append("object-reused-after-boundary-edit")
    # permutation / translation / scaling
    g = np.random.Generator(np.random.PCG64(L["perm_seed"]))
    p = g.permutation(len(coords))
    wp, ip = sut(hv.HvsrSpatial(coords[p]).spatial_weights, boundary, what="spatial_weights(permuted)")
    back = {int(p[k]): float(wk) for k, wk in zip(ip, wp)}
    require(sorted(back) == sorted(idx_ref), "permuting the sensors changes which sensors are retained")
    require(all(abs(back[j] - wj) <= wtol for j, wj in zip(idx_ref, w)), "permuting the sensors changes their weights")
    sh = np.array(L["shift"]) * E / 1e4 * 10
    wt, it = sut(hv.HvsrSpatial(coords + sh).spatial_weights, boundary + sh, what="spatial_weights(translated)")
    require(list(it) == list(idx_ref) and np.all(np.abs(np.asarray(wt) - w) <= wtol), f"translating all coordinates by {sh.tolist()} changes the weights (max diff {np.max(np.abs(np.asarray(wt) - w)):.3g})")
    s = 2.0 ** L["k"]
    # the scaled copy must itself lie in the regime of the fixed 1e6 far-point radius (see the guard above)
    if size * s < 5e4 and 1e6 * math.sin(amin / 2.0) >= 5.0 * rb * s:
        ws_, is_ = sut(hv.HvsrSpatial(coords * s).spatial_weights, boundary * s, what="spatial_weights(scaled)")
        require(list(is_) == list(idx_ref) and np.all(np.abs(np.asarray(ws_) - w) <= wtol), f"scaling all coordinates by 2^{L['k']} changes the weights")
    culled = len(idx_ref) < len(coords)
    if culled:
        labels.append("culled-sensor")
    if cut:
        labels.append("cell-cut-by-boundary")
    if L["pattern"] == "line-tight":
        labels.append("line-tight")
    labels.append("boundary/array=%s" % ("<3" if size / (2 * E) < 3 else ("3-50" if size / (2 * E) < 50 else ">50")))
    return culled and cut


def check_mc(hv, M, labels):
    g = np.random.Generator(np.random.PCG64(M["seed"]))
    m = M["m"]
    if M["dist_gen"] == "normal":
        means = g.uniform(0.5, 5.0, size=m)
        sds = means * g.uniform(0.0, 0.05, size=m)
    else:
        means = g.normal(0.3, 0.6, size=m)
        sds = g.uniform(0.02, 0.4, size=m)
    wts = np.ones(m) if M["equal"] else g.uniform(0.1, 2.0, size=m)
    # storage of the weights as handed in (areas in m^2 or counts are often integers); the reference uses their values
    wt = M.get("wtype", "float64")
    if wt == "list":
        wts_in = [float(v) for v in wts]
    elif wt == "int64":
        wts_in = np.round(wts * 10).astype(np.int64) + 1
    elif wt == "int32-large":
        wts_in = (np.round(wts * 40000).astype(np.int32) + 50000)
    elif wt == "uint16":
        wts_in = (np.round(wts * 20000).astype(np.uint16) + 300)
    elif wt == "float32":
        wts_in = wts.astype(np.float32)
    else:
        wts_in = wts
    wts = np.asarray(wts_in, dtype=np.float64)
    RT = 1e-10 if wt != "float32" else 1e-5       # single-precision weights are normalised in single precision
    args = dict(distribution_generators=M["dist_gen"], distribution_spatial=M["dist_sp"], n_realizations=M["n_real"])
    mean, sd, x = sut(hv.montecarlo_fn, means, sds, wts_in, rng=np.random.default_rng(M["rng_seed"]), what="montecarlo_fn", **args)
    x = np.asarray(x, dtype=float)
    require(x.shape == (m, M["n_real"]), f"realisations have shape {x.shape}, expected {(m, M['n_real'])}")
    require(np.all(np.isfinite(x)) and (M["dist_sp"] == "normal" or np.all(x > 0)), "non-finite / non-positive realisations returned")
    X = np.log(x) if M["dist_sp"] == "lognormal" else x
    om = np.repeat(wts / wts.sum() / M["n_real"], M["n_real"]).reshape(X.shape)
    mm = float(np.sum(om * X))
    want_mean = math.exp(mm) if M["dist_sp"] == "lognormal" else mm
    if not close(mean, want_mean, rtol=RT):
        raise Violation(f"Monte-Carlo mean ({M['dist_gen']} generators, {M['dist_sp']} spatial) is {mean!r}, the weighted mean of the returned realisations is {want_mean!r}")
    if M["n_real"] * m >= 2:
        denom = 1.0 - float(np.sum(om ** 2))
        ss = math.sqrt(float(np.sum(om * (X - mm) ** 2)) / denom)
        if not close(sd, ss, rtol=max(RT, 1e-9), atol=1e-14):
            raise Violation(f"Monte-Carlo standard deviation ({M['dist_gen']}/{M['dist_sp']}) is {sd!r}, the weighted standard deviation of the returned realisations is {ss!r}")
    # weights x constant
    mean2, sd2, x2 = sut(hv.montecarlo_fn, means, sds, wts * M["wscale"], rng=np.random.default_rng(M["rng_seed"]), what="montecarlo_fn", **args)
    require(close(mean2, mean, rtol=max(RT, 1e-12)) and close(sd2, sd, rtol=RT, atol=1e-14) and same_bits(x2, x), f"multiplying all weights by {M['wscale']} changes the statistics")
    # reproducible for a given generator
    mean3, sd3, x3 = sut(hv.montecarlo_fn, means, sds, wts_in, rng=np.random.default_rng(M["rng_seed"]), what="montecarlo_fn", **args)
    require(mean3 == mean and sd3 == sd and same_bits(x3, x), "same random generator state gives different results")
    # zero generating standard deviations -> closed form
    mean0, sd0, x0 = sut(hv.montecarlo_fn, means, np.zeros(m), wts_in, rng=np.random.default_rng(M["rng_seed"]), what="montecarlo_fn", **args)
    nat = np.exp(means) if M["dist_gen"] == "lognormal" else means
    require(close(np.asarray(x0), np.repeat(nat[:, None], M["n_real"], axis=1), rtol=1e-12), "with zero standard deviations the realisations are not the generator means in natural units")
    wn = wts / wts.sum()
    cf = math.exp(float(np.sum(wn * np.log(nat)))) if M["dist_sp"] == "lognormal" else float(np.sum(wn * nat))
    if not close(mean0, cf, rtol=max(RT, 1e-12)):
        raise Violation(f"zero standard deviations ({M['dist_gen']}/{M['dist_sp']}): mean {mean0!r}, closed-form weighted {'log-' if M['dist_sp'] == 'lognormal' else ''}mean {cf!r}")
    labels.append(f"mc:{M['dist_gen']}/{M['dist_sp']}")
    labels.append(f"weights:{wt}")
    return (not M["equal"]) and float(np.ptp(means)) > 0


def check_case(case):
    import hvsrpy as hv
    labels = ["big-%d0-sensors" % (case["layout"]["n"] // 10)] if case.get("big") else []
    nt1 = check_layout(hv, case["layout"], labels)
    nt2 = check_mc(hv, case["mc"], labels)
    return dict(labels=labels, nontrivial=bool(nt1 or nt2))
