"""C07 - Readers put the stored samples on the right components for every format."""
import itertools
import math
import os
import shutil
import tempfile

import numpy as np
from hypothesis import strategies as st

from .. import gen
from ..core import Violation, Refusal, require, sut, same_bits

ID = "C07"
RULE = ("Cases: a generated file set in a per-case temporary directory for one of the formats miniSEED (one file with three "
        "traces or three files; int32 / float32 / float64), SAC (either byte order), GCF, SAF, MiniShark, PEER, with drawn "
        "samples (full int32 range for integer formats), length 8-400, sampling rate, channel-name variant, one of the 6 orders "
        "of traces/files, line ending, header scaling and orientation metadata, explicit degrees_from_north or none; a negative "
        "variant (count mismatch, missing / duplicated component, unrecognisable bytes); and a read() call over 1-4 recordings "
        "with degrees_from_north and obspy_read_kwargs each given as None, once, or per recording. Non-trivial = the three "
        "components differ pairwise and the order is not the identity; distinct by SHA-1 of the case."
        ' SAF headers carry 0-150 comment lines in drawn positions and shuffled keyword order, some are conversions of MiniShark files (two-reader files). Scale pass: 2^12-2^17 samples per component.')
ASSUMPTIONS = [
    "binary formats are written with obspy.Stream.write (obspy's codecs are trusted); text formats by emitters that follow the example files and the readers' documented layout",
    "SAF files whose channel 1 is the vertical are read only with an explicit degrees_from_north (the reader documents this refusal); with E on channel 1 the orientation is asserted modulo 180 only",
    "integer text formats are compared after conversion to single precision, as the property states",
]
BUDGET = {"quick": 1200, "thorough": 30000}
SHARDS = {"quick": 8, "thorough": 16}
TECHNIQUE = "property-based round-trip testing: generated files (obspy writers + text emitters) -> readers, exact sample/metadata oracle, negative variants"

FORMATS = ["mseed1", "mseed3", "sac", "gcf", "saf", "minishark", "peer"]
PREFIX = ["BH", "HH", "EH", "HN", "SH", "EL"]


@st.composite
def strategy(draw):
    fmt = draw(gen.choice(FORMATS))
    n = draw(st.integers(8, 400))
    fs = draw(gen.choice([20, 40, 50, 75, 100, 128, 200, 250, 500])) if fmt != "peer" else None
    order = list(draw(st.permutations([0, 1, 2])))
    # the three kinds of case are drawn jointly (independent draws of "no explicit orientation" and "well-formed file" left the
    # plain combination - orientation taken from the file's own metadata - at zero cases in some runs)
    # Hypothesis builds new examples by mutating earlier ones, which correlates independent draws within a shard (the plain
    # SAF combination, and later PEER with an explicit orientation of 0, had zero cases in whole runs).  The case kind, the
    # explicit orientation and the kind of malformation are therefore derived from the low digits of one drawn 32-bit seed.
    seed = draw(gen.seeds32)
    pick = np.random.Generator(np.random.PCG64(seed)).integers(0, 2 ** 30, size=8)      # (drawn seeds are not uniform either: mixed first)
    mode = ["plain", "explicit", "plain", "negative", "plain", "explicit", "negative"][int(pick[0]) % 7]
    dfn_float = draw(gen.floats(-720, 720))
    dfn_pick = [dfn_float, 0.0, 90.0, dfn_float, 400.0, 0.0][int(pick[1]) % 6]
    neg_pick = ["duplicate", "count-more", "missing", "count-fewer", "garbage"][int(pick[2]) % 5]
    case = dict(format=fmt, n=n, fs=fs, order=order, seed=seed, prefix=draw(gen.choice(PREFIX)),
                dfn=(dfn_pick if (mode == "explicit" or (mode == "negative" and int(pick[3]) % 2 == 0)) else None),
                negative=(neg_pick if mode == "negative" else None))
    if fmt in ("mseed1", "mseed3"):
        case["dtype"] = draw(gen.choice(["int32", "float32", "float64"]))
    if fmt == "sac":
        case["byteorder"] = draw(st.sampled_from(["<", ">"]))
    if fmt == "saf":
        import itertools
        case["assign"] = list(list(itertools.permutations(["V", "N", "E"]))[int(pick[4]) % 6])      # CH0, CH1, CH2
        case["north_rot"] = 0 if int(pick[5]) % 3 == 0 else 1 + int(pick[5]) % 359
        case["crlf"] = draw(st.booleans())
        # the format allows '#' comment lines and any keyword order in the header: field notes of 0-150 lines
        case["saf_comments"] = dict(n=[0, 0, 2, 12, 60, 150, 150][int(pick[6]) % 7], at=["top", "middle", "mixed"][int(pick[7]) % 3],
                                    shuffle=draw(st.booleans()), seed=draw(gen.seeds32),
                                    # converted from a MiniShark recording: the original header kept as comments, tab-separated columns
                                    shark=draw(gen.chance(4)))
        if case["assign"][1] == "V" or case["negative"] is not None:
            # where the SAF reader (documentedly) refuses the file, read_single falls through to the MiniShark reader, which
            # would accept such a converted file: not a case the property speaks about
            case["saf_comments"]["shark"] = False
    if fmt == "minishark":
        case["gain"] = draw(st.sampled_from([1, 2, 4, 8, 64]))
        case["conversion"] = draw(st.sampled_from([1, 1000, 32768, 419430]))
        case["crlf"] = draw(st.booleans())
    if fmt == "peer":
        case["dt"] = draw(st.sampled_from([0.005, 0.01, 0.02, 0.0025, 0.004]))
        kind = draw(st.sampled_from(["numeric", "numeric", "channel"]))
        case["peer_kind"] = kind
        if kind == "numeric":
            az = draw(st.one_of(st.integers(0, 359), st.sampled_from([0, 360, 90, 45, 315, 270, 180])))
            case["az"] = [az, (az + draw(st.sampled_from([90, 270]))) % 360 or 360]
            case["vcode"] = draw(st.sampled_from(["UP", "VER"]))
        else:
            case["band"] = draw(st.sampled_from(["HN", "HL", "BH", "EH", "HH"]))
        case["lengths"] = [n - draw(st.integers(0, 3)) for _ in range(3)] if draw(gen.chance(3)) else [n, n, n]
        case["crlf"] = draw(st.booleans())
        case["numfmt"] = draw(gen.choice(["c", "dot", "two-digit"]))
    case["as_path"] = draw(gen.chance(4))      # pathlib.Path instead of str
    case["multi"] = dict(nrec=draw(st.integers(1, 4)), dfn_mode=draw(st.sampled_from(["none", "scalar", "list"])),
                         kw_mode=draw(st.sampled_from(["none", "dict", "list"])), dfns=[draw(gen.floats(-720, 720)) for _ in range(4)],
                         skips=[draw(st.integers(0, 5)) for _ in range(4)])
    return case


BIG = {"quick": 16, "thorough": 128}


@st.composite
def strategy_big(draw):
    """Long recordings: 2^12 .. 2^17 samples per component in every format (text formats grow to several MB)."""
    case = draw(strategy())
    case["n"] = draw(gen.big_size(2 ** 12, 2 ** 17))
    if case["format"] == "peer":
        case["lengths"] = [case["n"]] * 3
    case["multi"]["nrec"] = 1
    case["big"] = True
    return case


def _samples(case, idx):
    g = np.random.Generator(np.random.PCG64([case["seed"], idx]))
    fmt, n = case["format"], case["n"]
    if fmt in ("gcf", "saf", "minishark") or case.get("dtype") == "int32":
        kind = g.integers(0, 3)
        if kind == 0:
            # GCF stores first differences in 32 bits: obspy's codec cannot re-read full-range data it wrote itself
            top = 2 ** 29 if fmt == "gcf" else 2 ** 31 - 1
            return g.integers(-top + 1, top, size=n).astype(np.int32)
        if kind == 1:
            return g.integers(-40000, 40000, size=n).astype(np.int32)
        return (g.standard_normal(n) * 300).astype(np.int32)
    x = g.standard_normal(n) * 10.0 ** float(g.integers(-6, 7))
    if case.get("dtype") == "float32" or fmt == "sac":
        return x.astype(np.float32)
    return x.astype(np.float64)


def _write_text(path, text, crlf):
    with open(path, "w", newline="") as f:
        f.write(text.replace("\n", "\r\n") if crlf else text)


def _emit_saf(path, case, comps, rows_delta=0):
    V, N, E = comps["vt"], comps["ns"], comps["ew"]
    cols = {"V": V, "N": N, "E": E}
    assign = case["assign"]
    n = len(V)
    lines = ["SESAME ASCII data format (saf) v. 1    (this line must not be modified)", f"SAMP_FREQ = {case['fs']}",
             f"NDAT = {n + rows_delta:010d}", "START_TIME = 2021 11 22 13 31 10.000", "CLIPPING SAMPLES = 0000000000 0000000000 0000000000",
             "SENSOR_TYPE = Velocity", "RESPFILE =", "ACQ_SYSTEM = generated", "STA_CODE = VF-01", "STA_COORD_TYPE = 0",
             f"NORTH_ROT = {case['north_rot']}", "UNITS = Counts", f"CH0_ID = {assign[0]}", f"CH1_ID = {assign[1]}", f"CH2_ID = {assign[2]}",
             "STA_X =", "STA_Y =", "STA_Z = 0"]
    c = case.get("saf_comments")
    if c:
        g = np.random.Generator(np.random.PCG64(c["seed"]))
        first, keys = lines[0], lines[1:]
        if c["shuffle"]:
            keys = [keys[i] for i in g.permutation(len(keys))]
        notes = [f"# field note {i + 1:03d}: " + " ".join(["wind gusts", "traffic on the road", "sensor re-levelled", "battery swapped", "cable checked",
                                                              "site 12 line B", "gain unchanged"][int(j)] for j in g.integers(0, 7, size=3))
                 for i in range(c["n"])]
        if c.get("shark"):
            notes = notes + ["# converted from:", "#MiniShark generated file", f"#Sample rate (sps):\t{case['fs']}", f"#Sample number:\t{n + rows_delta}",
                             "#Gain:\t4", "#Conversion factor:\t32768", "#Channel order:\tV\tN\tE", "#Data:"]
        if c["at"] == "top":
            keys = notes + keys
        elif c["at"] == "middle":
            h = len(keys) // 2
            keys = keys[:h] + notes + keys[h:]
        else:
            slots = sorted(g.integers(0, len(keys) + 1, size=len(notes)).tolist(), reverse=True)
            for note, pos in zip(notes, slots):
                keys.insert(pos, note)
        lines = [first] + keys
    lines.append("####--------------------------------")
    sep = "\t" if (c and c.get("shark")) else " "
    for i in range(n):
        lines.append(sep.join(str(int(cols[a][i])) for a in assign))
    _write_text(path, "\n".join(lines) + "\n", case["crlf"])


def _emit_minishark(path, case, comps, rows_delta=0):
    n = len(comps["vt"])
    lines = ["#MiniShark generated file", "#Original file name:\tgenerated", f"#Sample rate (sps):\t{case['fs']}", f"#Sample number:\t{n + rows_delta}",
             f"#Gain:\t{case['gain']}", f"#Conversion factor:\t{case['conversion']}", "#Channel order:\tV\tN\tE", "#Data:"]
    for i in range(n):
        lines.append(f"{int(comps['vt'][i])}\t{int(comps['ns'][i])}\t{int(comps['ew'][i])}")
    _write_text(path, "\n".join(lines) + "\n", case["crlf"])


def _peer_number(v, style):
    """One sample in E-notation, 15 characters wide.  Styles: C/numpy form d.dddddddE+xx, the leading-dot
    Fortran form of the PEER database (.dddddddE+xx) and a two-digit mantissa (Fortran scale factor, dd.ddddddE+xx)."""
    if style == "c":
        return "%15.7E" % v
    mant, exp = ("%.7E" % abs(v)).split("E")
    digits = mant.replace(".", "")
    e = int(exp)
    sign = "-" if v < 0 else ""
    if style == "dot":
        txt = f"{sign}.{digits[:7]}E{e + 1:+03d}"
    else:
        txt = f"{sign}{digits[:2]}.{digits[2:8]}E{e - 1:+03d}"
    return txt.rjust(15)


def _emit_peer(path, code, x, dt, crlf, npts=None, style="c"):
    lines = ["PEER NGA STRONG MOTION DATABASE RECORD", f"Generated-01, 1/17/1994, Verification Station, {code}",
             "VELOCITY TIME SERIES IN UNITS OF CM/S", f"NPTS=  {len(x) if npts is None else npts:5d}, DT=   {dt:.4f} SEC"]
    for i in range(0, len(x), 5):
        lines.append("".join(_peer_number(v, style) for v in x[i:i + 5]))
    _write_text(path, "\n".join(lines) + "\n", crlf)


def _obspy_trace(ch, data, fs):
    from obspy import Trace, UTCDateTime
    return Trace(data=data, header=dict(sampling_rate=float(fs), channel=ch, network="VF", station="STA1", starttime=UTCDateTime(2020, 1, 1)))


def _mseed_kw(arrays):
    """STEIM2 cannot encode first differences beyond 30 bits: such integer data are written uncompressed."""
    if arrays[0].dtype == np.int32 and any(len(x) > 1 and np.max(np.abs(np.diff(x.astype(np.int64)))) >= 2 ** 29 or np.max(np.abs(x.astype(np.int64))) >= 2 ** 29 for x in arrays):
        return dict(encoding="INT32")
    return {}


def build_files(case, tmp, tag="a"):
    """Write the file set; returns (fnames argument for read_single, expected dict)."""
    from obspy import Stream
    fmt = case["format"]
    comps = dict(ns=_samples(case, 0), ew=_samples(case, 1), vt=_samples(case, 2))
    names = ["ns", "ew", "vt"]
    letters = dict(ns="N", ew="E", vt="Z")
    order = [names[i] for i in case["order"]]
    neg = case["negative"]
    exp = dict(dt=None, dfn=None, files=None)
    if fmt in ("mseed1", "mseed3", "sac", "gcf"):
        fs = case["fs"]
        exp["dt"] = 1.0 / fs
        chans = {c: case["prefix"] + letters[c] for c in names}
        traces = [(c, comps[c]) for c in order]
        if neg == "missing":
            traces = traces[:2]
        if neg == "duplicate":
            c0 = traces[0][0]
            traces[1] = (c0, comps[traces[1][0]])
        if fmt in ("mseed1", "gcf"):
            path = os.path.join(tmp, f"{tag}.{ 'mseed' if fmt == 'mseed1' else 'gcf'}")
            if fmt == "mseed1":
                Stream([_obspy_trace(chans[c], x, fs) for c, x in traces]).write(path, format="MSEED", **_mseed_kw([x for _, x in traces]))
            else:
                Stream([_obspy_trace(chans[c], x, fs) for c, x in traces]).write(path, format="GCF")
            fn = path
        else:
            fn = []
            for k, (c, x) in enumerate(traces):
                path = os.path.join(tmp, f"{tag}_{k}_{chans[c]}.{'mseed' if fmt == 'mseed3' else 'sac'}")
                if fmt == "mseed3":
                    Stream([_obspy_trace(chans[c], x, fs)]).write(path, format="MSEED", **_mseed_kw([x]))
                else:
                    Stream([_obspy_trace(chans[c], x, fs)]).write(path, format="SAC", byteorder=case["byteorder"])
                fn.append(path)
        exp.update(ns=comps["ns"].astype(np.float64), ew=comps["ew"].astype(np.float64), vt=comps["vt"].astype(np.float64), dfn=0.0, files=fn)
    elif fmt == "saf":
        path = os.path.join(tmp, f"{tag}.saf")
        delta = {"count-more": 3, "count-fewer": -2}.get(neg, 0)
        _emit_saf(path, case, comps, rows_delta=delta)
        fn = path
        exp["dt"] = 1.0 / case["fs"]
        f32 = {c: comps[c].astype(np.float32).astype(np.float64) for c in names}
        exp.update(**f32, files=fn)
        a = case["assign"]
        exp["dfn"] = float(case["north_rot"]) if a[1] == "N" else (("mod180", float(case["north_rot"]) + 90.0) if a[1] == "E" else "refuse")
    elif fmt == "minishark":
        path = os.path.join(tmp, f"{tag}.minishark")
        delta = {"count-more": 3, "count-fewer": -2}.get(neg, 0)
        _emit_minishark(path, case, comps, rows_delta=delta)
        fn = path
        exp["dt"] = 1.0 / case["fs"]
        conv = {}
        for c in names:
            d = comps[c].astype(np.float32)
            d = d / np.float32(case["gain"])
            d = d / np.float32(case["conversion"])
            conv[c] = d.astype(np.float64)
        exp.update(**conv, dfn=0.0, files=fn)
    else:  # peer
        dt = case["dt"]
        if case["peer_kind"] == "numeric":
            az_ns, az_ew = case["az"]
            # which of the two horizontals is nearer to north?
            def rel(a):
                a = a % 360 if a != 360 else 360
                return abs(a - 360) if a > 180 else abs(a)
            codes = dict(ns=str(az_ns), ew=str(az_ew), vt=case["vcode"])
            if rel(az_ew) < rel(az_ns):
                exp["swap"] = True
            exp["tie"] = rel(az_ew) == rel(az_ns)
        else:
            codes = dict(ns=case["band"] + "N", ew=case["band"] + "E", vt=case["band"] + "Z")
        lens = dict(zip(names, case["lengths"]))
        fn = []
        written = {}
        items = list(order)
        if neg == "missing":
            items = items[:2]
        if neg == "duplicate":
            items = [c for c in items if c != "vt"] + ["vt"]      # duplicate a horizontal (two verticals fail trivially)
        for k, c in enumerate(items):
            x = comps[c][:lens[c]].astype(np.float64)
            code = codes[c]
            if neg == "duplicate" and k == 1:
                code = codes[items[0]]
            path = os.path.join(tmp, f"{tag}_{k}_{code}.at2")
            npts = None
            if neg in ("count-more", "count-fewer") and k == 0:
                npts = len(x) + (3 if neg == "count-more" else -2)
            style = case.get("numfmt", "c")
            _emit_peer(path, code, x, dt, case["crlf"], npts=npts, style=style)
            # what the text actually stores
            written[c] = np.array([float(_peer_number(v, style)) for v in x])
            fn.append(path)
        m = min(lens.values())
        exp["dt"] = dt
        if neg is None:
            exp.update(ns=written["ns"][:m], ew=written["ew"][:m], vt=written["vt"][:m], files=fn)
            if case["peer_kind"] == "numeric":
                exp["dfn"] = float(case["az"][0] % 360)
            else:
                exp["dfn"] = 0.0
    return fn, exp


def _ang_eq(x, y, mod=360.0):
    return abs(((float(x) - float(y) + mod / 2) % mod) - mod / 2) <= 1e-9


def check_case(case):
    import hvsrpy as hv
    from obspy import UTCDateTime
    tmp = tempfile.mkdtemp(prefix="vf-c07-")
    fmt = case["format"]
    labels = [fmt] + (["big-2^%d-samples" % int(np.log2(case["n"]))] if case.get("big") else [])
    if fmt in ("saf", "peer") and case["dfn"] is None and case["negative"] is None:
        labels.append(f"{fmt}:orientation-from-file")
    try:
        neg = case["negative"]
        if neg == "garbage":
            path = os.path.join(tmp, "junk.bin")
            g = np.random.Generator(np.random.PCG64(case["seed"]))
            with open(path, "wb") as f:
                f.write(g.integers(0, 256, size=case["n"] * 7, dtype=np.uint8).tobytes())
            fnames = path if fmt in ("mseed1", "gcf", "saf", "minishark") else [path, path, path]
            try:
                rec = hv.read_single(fnames)
            except Exception:
                return dict(labels=labels + ["negative:garbage"], nontrivial=False)
            raise Violation(f"unrecognisable bytes were read as a recording ({type(rec).__name__}) via the {fmt}-style call")
        applicable = {"count-more": fmt in ("saf", "minishark", "peer"), "count-fewer": fmt in ("saf", "minishark", "peer"),
                      "missing": fmt in ("mseed1", "mseed3", "sac", "gcf", "peer"), "duplicate": fmt in ("mseed1", "mseed3", "sac", "gcf", "peer")}
        if neg is not None and not applicable.get(neg, False):
            neg = None
            case = dict(case, negative=None)
        if neg == "duplicate" and fmt == "peer" and case["peer_kind"] == "numeric" and case["order"][0] == 2:
            neg = None      # duplicating the vertical code: two verticals + one horizontal - also invalid, but keep the clear variants only
            case = dict(case, negative=None)
        if fmt == "gcf" and case["fs"] not in (50, 100, 200, 250, 500):
            case = dict(case, fs=100)         # obspy's GCF writer needs whole-second blocks
        fn, exp = build_files(case, tmp)
        if fmt == "gcf":
            import obspy
            try:
                obspy.read(fn, format="GCF")
            except Exception:
                return dict(labels=labels + ["obspy-cannot-reread-its-own-gcf"], nontrivial=False)
        explicit = case["dfn"]
        if neg is not None:
            try:
                rec = hv.read_single(fn, degrees_from_north=explicit)
            except Exception:
                return dict(labels=labels + [f"negative:{neg}"], nontrivial=False)
            raise Violation(f"{fmt}: a file set with {neg.replace('-', ' ')} was read as a recording instead of raising an error")
        refuse = exp["dfn"] == "refuse" and explicit is None
        if case.get("as_path"):
            import pathlib
            fn = pathlib.Path(fn) if isinstance(fn, str) else [pathlib.Path(x) for x in fn]
            labels.append("pathlib")
        try:
            rec = sut(hv.read_single, fn, degrees_from_north=explicit, allow=(ValueError,) if refuse else (), what=f"read_single[{fmt}]")
        except Refusal:
            return dict(labels=labels + ["saf-vertical-on-ch1-refused"], nontrivial=False)
        if refuse:
            raise Violation(f"saf (channels {case.get('assign')}, NORTH_ROT={case.get('north_rot')}): a file whose channel 1 is the vertical was read without an explicit "
                            f"degrees_from_north (orientation reported: {rec.degrees_from_north}); the reader documents a ValueError because the orientation cannot be inferred")
        if exp.get("tie"):
            # both horizontals equally far from north: either may be taken as "ns", the other must be "ew"
            h = rec.ns.amplitude
            if h.shape == exp["ew"].shape and same_bits(h, exp["ew"]) and not same_bits(exp["ew"], exp["ns"]):
                exp["swap"] = True
            exp["tie_checked"] = True
        for c in ("ns", "ew", "vt"):
            want = exp[c]
            if exp.get("swap") and c in ("ns", "ew"):
                want = exp["ew" if c == "ns" else "ns"]
            have = getattr(rec, c).amplitude
            if not (have.shape == want.shape and same_bits(have, want)):
                other = [o for o in ("ns", "ew", "vt") if have.shape == exp[o].shape and same_bits(have, exp[o])]
                raise Violation(f"{fmt} (order {case['order']}{', channels ' + str(case.get('assign')) if fmt == 'saf' else ''}): component {c} does not hold the samples stored for it"
                                + (f"; it holds the samples stored for {other[0]}" if other else f" ({len(have)} vs {len(want)} samples; first {have[:2].tolist()} vs {want[:2].tolist()})"))
            dt_have = getattr(rec, c).dt_in_seconds
            # SAC headers hold the sampling interval in single precision and obspy rounds it to microseconds
            dt_ok = abs(dt_have - exp["dt"]) <= 6e-7 if fmt == "sac" else dt_have == exp["dt"]
            require(dt_ok, f"{fmt}: time step of {c} is {dt_have!r}, the file stores {exp['dt']!r}")
        if explicit is not None:
            require(_ang_eq(rec.degrees_from_north, explicit), f"{fmt}: explicit degrees_from_north={explicit} gives {rec.degrees_from_north}")
        else:
            d = exp["dfn"]
            if exp.get("swap"):
                d = float(case["az"][1] % 360)
            if isinstance(d, tuple):
                require(_ang_eq(rec.degrees_from_north, d[1], 180.0), f"saf: orientation {rec.degrees_from_north} for NORTH_ROT={case['north_rot']} with E on channel 1")
            else:
                require(_ang_eq(rec.degrees_from_north, d), f"{fmt}: orientation {rec.degrees_from_north}, the file's metadata gives {d}")
        names = rec.meta.get("file name(s)")
        flat = [names] if isinstance(names, str) else list(names)
        want_files = list(fn) if isinstance(fn, (list, tuple)) else [fn]
        require([os.path.basename(str(x)) for x in flat] == [os.path.basename(str(x)) for x in want_files], f"meta['file name(s)'] = {names!r} does not name the files read")

        # ---- read(): per-recording arguments, in order ---------------------------
        M = case["multi"]
        nrec = M["nrec"]
        sets = []
        for j in range(nrec):
            cj = dict(case, seed=(case["seed"] + 17 * (j + 1)) % (2 ** 32), negative=None)
            sets.append(build_files(cj, tmp, tag=f"m{j}"))
        fnames = [[s[0]] if isinstance(s[0], str) else list(s[0]) for s in sets]
        dfn_arg = None if M["dfn_mode"] == "none" else (M["dfns"][0] if M["dfn_mode"] == "scalar" else M["dfns"][:nrec])
        obspy_fmt = {"mseed1": "MSEED", "mseed3": "MSEED", "sac": "SAC", "gcf": "GCF"}.get(fmt)
        t0 = UTCDateTime(2020, 1, 1)
        use_kw = obspy_fmt is not None and fmt != "gcf" and M["kw_mode"] != "none"

        def kw(j):
            return {"format": obspy_fmt, "starttime": t0 + M["skips"][j] / float(case["fs"])}
        kw_arg = None if not use_kw else (kw(0) if M["kw_mode"] == "dict" else [kw(j) for j in range(nrec)])
        if M["kw_mode"] == "list" and not use_kw and M["kw_mode"] != "none":
            kw_arg = [None] * nrec
        any_refuse = any(s[1]["dfn"] == "refuse" for s in sets) and dfn_arg is None
        try:
            recs = sut(hv.read, fnames, obspy_read_kwargs=kw_arg, degrees_from_north=dfn_arg, allow=(ValueError,) if any_refuse else (), what=f"read[{fmt}]")
        except Refusal:
            return dict(labels=labels + ["saf-vertical-on-ch1-refused"], nontrivial=False)
        require(len(recs) == nrec, f"read() returned {len(recs)} recordings for {nrec} entries")
        for j, (rj, (fj, ej)) in enumerate(zip(recs, sets)):
            skip = 0 if not use_kw else (M["skips"][0] if M["kw_mode"] == "dict" else M["skips"][j])
            if ej.get("tie"):
                h = rj.ns.amplitude
                if h.shape == ej["ew"].shape and same_bits(h, ej["ew"]) and not same_bits(ej["ew"], ej["ns"]):
                    ej["swap"] = True
            for c in ("ns", "ew", "vt"):
                want = ej[c]
                if ej.get("swap") and c in ("ns", "ew"):
                    want = ej["ew" if c == "ns" else "ns"]
                want = want[skip:]
                have = getattr(rj, c).amplitude
                if not (have.shape == want.shape and same_bits(have, want)):
                    raise Violation(f"read() [{fmt}]: recording {j} component {c} is not what entry {j} stores"
                                    + (f" read with its own options (skip {skip} samples); it has {len(have)} samples, expected {len(want)}" if use_kw else ""))
            if dfn_arg is not None:
                wantd = M["dfns"][0] if M["dfn_mode"] == "scalar" else M["dfns"][j]
                require(_ang_eq(rj.degrees_from_north, wantd), f"read(): recording {j} has degrees_from_north {rj.degrees_from_north}, its own value is {wantd} "
                        f"(degrees_from_north given {'once' if M['dfn_mode'] == 'scalar' else 'per recording'}, reader options {M['kw_mode']})")
        labels.append(f"read:dfn={M['dfn_mode']},kw={M['kw_mode'] if use_kw or M['kw_mode'] == 'none' else 'list-of-None' if kw_arg else 'none'}")
    finally:
        shutil.rmtree(tmp, ignore_errors=True)
    distinct = not (np.array_equal(exp["ns"], exp["ew"]) or np.array_equal(exp["ns"], exp["vt"]) or np.array_equal(exp["ew"], exp["vt"]))
    return dict(labels=labels, nontrivial=bool(distinct and case["order"] != [0, 1, 2]))
