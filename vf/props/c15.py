"""C15 - Settings round-trip through files and are independent of one another."""
import copy
import os
import shutil
import tempfile

import numpy as np
from hypothesis import strategies as st

from .. import gen
from ..core import Violation, Refusal, require, sut, same_bits, snap, snap_diff

ID = "C15"
RULE = ("Cases: a history of 3-12 operations over a pool of live settings objects of the eight public classes: create "
        "(defaults, or drawn arguments given as lists / tuples / ndarrays / dicts / None, possibly the *same* argument object "
        "handed to two constructors), mutate in place (list element, dict entry, array element), assign, save -> load into a "
        "fresh instance, save -> type-dispatching reader, and processing small fixed recordings with an object and with its "
        "reloaded copy. Non-trivial = an in-place mutation of a list/array/dict-valued attribute is followed by the creation "
        "or inspection of another object; distinct by SHA-1 of the case.")
ASSUMPTIONS = [
    "at the start of every example the harness restores the classes' mutable default arguments to pristine copies, so one failing example cannot contaminate the next",
    "instrument_transfer_function is kept None (not serialisable by design)",
    "content equality: ndarray == list == tuple element by element, floats exact",
]
BUDGET = {"quick": 640, "thorough": 16000}
SHARDS = {"quick": 8, "thorough": 16}
TECHNIQUE = "model-based stateful property testing: dict-of-contents model of every live settings object, save/load/dispatch round trips, reloaded-vs-original processing differential"

CLASSES = ["HvsrPreProcessingSettings", "PsdPreProcessingSettings", "PsdProcessingSettings", "HvsrTraditionalProcessingSettings",
           "HvsrTraditionalSingleAzimuthProcessingSettings", "HvsrTraditionalRotDppProcessingSettings",
           "HvsrAzimuthalProcessingSettings", "HvsrDiffuseFieldProcessingSettings"]
PRE = CLASSES[:2]
SEQ_AS = ["list", "tuple", "ndarray"]

_PRISTINE = {}


def _defaults_of(cls):
    import inspect
    out = {}
    for k in cls.__mro__:
        init = k.__dict__.get("__init__")
        if init is None or not hasattr(init, "__defaults__") or init.__defaults__ is None:
            continue
        for i, d in enumerate(init.__defaults__):
            if isinstance(d, (list, dict, np.ndarray)):
                out[(k.__name__, i)] = d
    return out


def _capture_pristine(hv):
    if _PRISTINE:
        return
    for name in CLASSES:
        for key, d in _defaults_of(getattr(hv, name)).items():
            _PRISTINE.setdefault((id(d), key), (d, copy.deepcopy(d)))


def _restore_pristine():
    for (_id, _key), (live, pristine) in _PRISTINE.items():
        if isinstance(live, list):
            live[:] = copy.deepcopy(pristine)
        elif isinstance(live, np.ndarray):
            live[...] = pristine
        elif isinstance(live, dict):
            live.clear()
            live.update(copy.deepcopy(pristine))


def content(x):
    if isinstance(x, dict):
        return {str(k): content(v) for k, v in x.items()}
    if isinstance(x, (list, tuple, np.ndarray)):
        return [content(v) for v in (x.tolist() if isinstance(x, np.ndarray) else x)]
    if isinstance(x, (np.floating, np.integer, np.bool_)):
        return x.item()
    return x


def state_of(obj):
    return {a: content(getattr(obj, a)) for a in obj.attrs}


def _seq(values, as_):
    if as_ == "ndarray":
        return np.array(values, dtype=float)
    return list(values) if as_ == "list" else tuple(values)


@st.composite
def arg_set(draw):
    """Drawn constructor arguments (JSON description)."""
    k = draw(st.integers(4, 14))
    lo = draw(gen.floats(1.0, 3.0))
    fcs = [float(v) for v in np.geomspace(lo, draw(gen.floats(20.0, 45.0)), k)]
    op = draw(gen.choice(["konno_and_ohmachi", "parzen", "log_rectangular", "linear_triangular"]))
    return dict(width=draw(st.sampled_from([0.0, 0.1, 0.25, 1.0])), width_as=draw(st.sampled_from(["list", "tuple"])),
                op=op, bw={"konno_and_ohmachi": 40, "parzen": 0.5, "log_rectangular": 0.05, "linear_triangular": 0.5}[op],
                fcs=fcs, fcs_as=draw(st.sampled_from(SEQ_AS)),
                fft=draw(st.sampled_from([None, None, 2 ** 15, 2 ** 16])),
                policy=draw(st.sampled_from(["frequency_domain_resampling", "keeping_smallest_time_step", "keeping_majority_time_step"])),
                method=draw(gen.choice(gen.FD_METHODS)), azimuth=draw(st.one_of(gen.floats(0, 180), st.sampled_from([0.0, 20.0]))),
                percentile=draw(st.sampled_from([0.0, 50.0, 84.0, 100.0])),
                azimuths=draw(st.lists(st.sampled_from([0.0, 15.0, 30.0, 60.0, 90.0, 120.0, 150.0]), min_size=1, max_size=5, unique=True)),
                azimuths_as=draw(st.sampled_from(SEQ_AS)),
                orient=draw(st.sampled_from([None, 0.0, 30.0, 275.5])), corners=draw(st.sampled_from([[None, None], [1.0, None], [None, 20.0], [1.0, 20.0]])),
                corners_as=draw(st.sampled_from(["list", "tuple"])), wl=draw(st.sampled_from([None, 1.0, 0.75, 60.0])),
                detrend=draw(st.sampled_from(["linear", "constant", "none", None])), ignore=draw(st.booleans()), differentiate=draw(st.booleans()))


@st.composite
def strategy(draw):
    ops = []
    n_live = 0
    nargs = draw(st.integers(1, 3))
    args = [draw(arg_set()) for _ in range(nargs)]
    if draw(st.booleans()):
        # scripted prefix aimed at shared state: create (defaults or shared arguments), optionally a sibling built from the
        # same argument objects, mutate a mutable attribute in place, then build a fresh default object of that class
        cls = draw(gen.choice(CLASSES))
        mode = draw(st.sampled_from(["defaults", "defaults", "shared-args"]))
        ops.append(dict(op="create", cls=cls, mode=mode, arg=0))
        n_live += 1
        if mode == "shared-args":
            ops.append(dict(op="create", cls=cls, mode="shared-args", arg=0))
            n_live += 1
        for _ in range(draw(st.integers(1, 3))):
            ops.append(dict(op="mutate", obj=0, which=draw(st.integers(0, 9)), value=draw(gen.floats(0.05, 0.95)), index=draw(st.integers(0, 3)), mutable_only=True))
        ops.append(dict(op="fresh-default", cls=cls))
    for _ in range(draw(st.integers(3, 10))):
        kind = draw(gen.choice(["create", "create", "mutate", "mutate", "assign", "saveload", "saveread", "rereadsame", "process", "fresh-default", "loadinto"])) if n_live else "create"
        if kind == "create":
            ops.append(dict(op="create", cls=draw(gen.choice(CLASSES)), mode=draw(st.sampled_from(["defaults", "args", "args", "shared-args"])),
                            arg=draw(st.integers(0, nargs - 1))))
            n_live += 1
        elif kind == "fresh-default":
            ops.append(dict(op="fresh-default", cls=draw(gen.choice(CLASSES))))
        elif kind in ("saveload", "saveread"):
            ops.append(dict(op=kind, obj=draw(st.integers(0, n_live - 1))))
            n_live += 1
        elif kind == "loadinto":
            ops.append(dict(op="loadinto", obj=draw(st.integers(0, n_live - 1)), target=draw(st.integers(0, n_live - 1)),
                            src_fft=draw(st.sampled_from(["keep", "empty", "norm", "none"]))))
            n_live += 1
        elif kind == "process":
            ops.append(dict(op="process", obj=draw(st.integers(0, n_live - 1))))
        elif kind == "rereadsame":
            ops.append(dict(op="rereadsame", obj=draw(st.integers(0, n_live - 1)), which=draw(st.integers(0, 9)), value=draw(gen.floats(0.05, 0.95)),
                            index=draw(st.integers(0, 3)), reader=draw(st.sampled_from(["dispatch", "dispatch", "load"]))))
            n_live += 2
        else:
            ops.append(dict(op=kind, obj=draw(st.integers(0, n_live - 1)), which=draw(st.integers(0, 9)), value=draw(gen.floats(0.05, 0.95)),
                            index=draw(st.integers(0, 3))))
    return dict(ops=ops, args=args)


def warmup():
    from . import c02
    c02.warmup()


def _kwargs(hv, name, a, shared=None):
    """Constructor kwargs of class `name` from an arg set.  `shared` caches argument objects so that the
    same list/array/dict object can be handed to several constructors."""
    def obj(key, make):
        if shared is None:
            return make()
        if key not in shared:
            shared[key] = make()
        return shared[key]
    if name in PRE:
        kw = dict(orient_to_degrees_from_north=a["orient"],
                  filter_corner_frequencies_in_hz=obj("corners", lambda: _seq(a["corners"], a["corners_as"]) if a["corners_as"] != "ndarray" else list(a["corners"])),
                  window_length_in_seconds=a["wl"], detrend=a["detrend"], ignore_dissimilar_time_step_warning=a["ignore"])
        if name == "PsdPreProcessingSettings":
            kw.update(window_type_and_width=obj("wtw", lambda: _seq(["tukey", a["width"]], a["width_as"])),
                      fft_settings=obj("fft", lambda: None if a["fft"] is None else {"n": a["fft"]}), differentiate=a["differentiate"])
        return kw
    kw = dict(window_type_and_width=obj("wtw", lambda: _seq(["tukey", a["width"]], a["width_as"])),
              smoothing=obj("smoothing", lambda: dict(operator=a["op"], bandwidth=a["bw"], center_frequencies_in_hz=_seq(a["fcs"], a["fcs_as"]))),
              fft_settings=obj("fft", lambda: None if a["fft"] is None else {"n": a["fft"]}), handle_dissimilar_time_steps_by=a["policy"])
    if name == "HvsrTraditionalProcessingSettings":
        kw["method_to_combine_horizontals"] = a["method"]
    if name == "HvsrTraditionalSingleAzimuthProcessingSettings":
        kw["azimuth_in_degrees"] = a["azimuth"]
    if name == "HvsrTraditionalRotDppProcessingSettings":
        kw["ppth_percentile_for_rotdpp_computation"] = a["percentile"]
        kw["azimuths_in_degrees"] = obj("azimuths", lambda: _seq(a["azimuths"], a["azimuths_as"]))
    if name == "HvsrAzimuthalProcessingSettings":
        kw["azimuths_in_degrees"] = obj("azimuths", lambda: _seq(a["azimuths"], a["azimuths_as"]))
    return kw


def _fixed_records(hv, mixed=False):
    g = np.random.Generator(np.random.PCG64(7))
    out = []
    for i in range(3):
        dt = 0.01
        out.append(hv.SeismicRecording3C(*(hv.TimeSeries(g.standard_normal(320), dt) for _ in range(3)), degrees_from_north=10.0 * i))
    return out


def _run(hv, settings):
    """Process (or preprocess) fixed recordings with a deep copy of the settings; returns a snapshot."""
    s = copy.deepcopy(settings)
    name = type(settings).__name__
    recs = _fixed_records(hv)
    if name in PRE:
        wins = sut(hv.preprocess, recs, s, allow=(ValueError, IndexError, KeyError, TypeError), what=f"preprocess[{name}]")
        return snap([(w.ns.amplitude, w.ew.amplitude, w.vt.amplitude, w.degrees_from_north) for w in wins])
    res = sut(hv.process, recs, s, allow=(ValueError, IndexError, KeyError, TypeError, ZeroDivisionError), what=f"process[{name}]")
    if isinstance(res, dict):
        return snap({k: (v.frequency, v.amplitude) for k, v in res.items()})
    amp = res.amplitude
    return snap((res.frequency, amp, getattr(res, "azimuths", None)))


def check_case(case):
    import hvsrpy as hv
    _capture_pristine(hv)
    _restore_pristine()
    live, model = [], []
    labels = []
    pending_mutation = False
    nontrivial = False
    shared_pools = [dict() for _ in case["args"]]
    tmp = tempfile.mkdtemp(prefix="vf-c15-")
    default_state = {}

    def pristine_default(name):
        if name not in default_state:
            _restore_pristine()
        return None

    def check_all(step, touched=None):
        for i, (o, m) in enumerate(zip(live, model)):
            now = state_of(o)
            if now != m:
                keys = [k for k in set(now) | set(m) if now.get(k) != m.get(k)]
                raise Violation(f"{step}: settings object {i} ({type(o).__name__}) changed although the operation touched "
                                f"{'object %d' % touched if touched is not None else 'no existing object'}: attributes {keys}: "
                                f"{[(str(m.get(k))[:80], str(now.get(k))[:80]) for k in keys][:2]}")

    try:
        # reference defaults (pristine process start + restore): a fresh default object per class
        for k, op in enumerate(case["ops"], start=1):
            step = f"op {k} ({op['op']})"
            if op["op"] == "create":
                cls = getattr(hv, op["cls"])
                if op["mode"] == "defaults":
                    o = sut(cls, what=f"{op['cls']}()")
                    expected = _expected_defaults(hv, op["cls"])
                    got = state_of(o)
                    if got != expected:
                        keys = [q for q in got if got[q] != expected.get(q)]
                        raise Violation(f"{step}: a newly default-constructed {op['cls']} does not have the pristine defaults: {keys}: "
                                        f"{[(str(expected.get(q))[:60], str(got[q])[:60]) for q in keys][:2]}")
                    labels.append("default-construction")
                else:
                    a = case["args"][op["arg"]]
                    pool = shared_pools[op["arg"]] if op["mode"] == "shared-args" else None
                    kw = _kwargs(hv, op["cls"], a, pool)
                    want = {q: content(v) for q, v in kw.items()}
                    o = sut(cls, what=f"{op['cls']}(...)", **kw)
                    got = state_of(o)
                    for q, v in want.items():
                        require(got.get(q) == v, f"{step}: {op['cls']}.{q} = {str(got.get(q))[:80]} after construction with {str(v)[:80]}")
                    if op["mode"] == "shared-args":
                        labels.append("shared-argument-objects")
                live.append(o)
                model.append(state_of(o))
                if pending_mutation:
                    nontrivial = True
                check_all(step)
            elif op["op"] == "fresh-default":
                o = sut(getattr(hv, op["cls"]), what=f"{op['cls']}()")
                expected = _expected_defaults(hv, op["cls"])
                got = state_of(o)
                if got != expected:
                    keys = [q for q in got if got[q] != expected.get(q)]
                    raise Violation(f"{step}: a newly default-constructed {op['cls']} does not have the pristine defaults: {keys}: "
                                    f"{[(str(expected.get(q))[:60], str(got[q])[:60]) for q in keys][:2]}")
                if pending_mutation:
                    nontrivial = True
                check_all(step)
            elif op["op"] in ("mutate", "assign"):
                i = op["obj"] % len(live)
                o = live[i]
                cands = [a for a in o.attrs if a not in ("hvsrpy_version", "processing_method", "preprocessing_method", "instrument_transfer_function")]
                if op.get("mutable_only") or op["op"] == "mutate":
                    mut = [a for a in cands if isinstance(getattr(o, a), (list, dict, np.ndarray))]
                    cands = mut or cands
                attr = cands[op["which"] % len(cands)]
                cur = getattr(o, attr)
                if op["op"] == "assign":
                    new = _assign_value(attr, cur, op)
                    setattr(o, attr, new)
                else:
                    if not _mutate_in_place(attr, cur, op):
                        setattr(o, attr, _assign_value(attr, cur, op))
                    else:
                        pending_mutation = True
                        labels.append("in-place-mutation")
                model[i] = state_of(o)
                check_all(step, touched=i)
            elif op["op"] in ("saveload", "saveread"):
                i = op["obj"] % len(live)
                o = live[i]
                path = os.path.join(tmp, f"s{k}.json")
                sut(o.save, path, what="save")
                if op["op"] == "saveload":
                    back = type(o)()
                    sut(back.load, path, what="load")
                else:
                    back = sut(hv.read_settings_object_from_file, path, what="read_settings_object_from_file")
                    labels.append("dispatching-reader")
                require(type(back) is type(o), f"{step}: a {type(o).__name__} was read back as {type(back).__name__}")
                a_, b_ = state_of(o), state_of(back)
                if a_ != b_:
                    keys = [q for q in set(a_) | set(b_) if a_.get(q) != b_.get(q)]
                    raise Violation(f"{step}: reloaded {type(o).__name__} differs in {keys}: {[(str(a_.get(q))[:70], str(b_.get(q))[:70]) for q in keys][:2]}")
                live.append(back)
                model.append(state_of(back))
                if pending_mutation:
                    nontrivial = True
                check_all(step)
            elif op["op"] == "loadinto":
                # load a saved object into an *existing* (already used) object of the same class
                i = op["obj"] % len(live)
                src = live[i]
                if hasattr(src, "fft_settings") and op["src_fft"] != "keep":
                    src.fft_settings = {"empty": {}, "norm": {"norm": "ortho"}, "none": None}[op["src_fft"]]
                    model[i] = state_of(src)
                j = op["target"] % len(live)
                if j != i and type(live[j]) is type(src):
                    tgt, jm = live[j], j
                else:
                    tgt, jm = sut(type(src), what=f"{type(src).__name__}()"), None
                    if hasattr(tgt, "fft_settings"):
                        tgt.fft_settings = {"n": 65536}          # as left behind by an earlier process() call
                    if hasattr(tgt, "smoothing") and isinstance(tgt.smoothing, dict):
                        tgt.smoothing["note"] = "left over"
                path = os.path.join(tmp, f"l{k}.json")
                sut(src.save, path, what="save")
                sut(tgt.load, path, what="load")
                a_, b_ = state_of(src), state_of(tgt)
                if a_ != b_:
                    keys = [q for q in set(a_) | set(b_) if a_.get(q) != b_.get(q)]
                    raise Violation(f"{step}: loading a saved {type(src).__name__} into an existing object leaves it different from the saved one in {keys}: "
                                    f"{[(str(a_.get(q))[:70], str(b_.get(q))[:70]) for q in keys][:2]}")
                if jm is None:
                    live.append(tgt)
                    model.append(state_of(tgt))
                else:
                    model[jm] = state_of(tgt)
                    live.append(sut(type(src), what="ctor"))      # keep the pool size in step with the generator
                    model.append(state_of(live[-1]))
                labels.append("load-into-existing")
                check_all(step, touched=jm)
            elif op["op"] == "rereadsame":
                # one unchanged file read twice, the first object edited in place: the second object and a third read of the
                # file still hold what was saved (seeded change C15-R6: a parse cache handing out its lists and dicts)
                i = op["obj"] % len(live)
                o = live[i]
                path = os.path.join(tmp, f"r{k}.json")
                sut(o.save, path, what="save")
                saved = state_of(o)

                def read_again():
                    if op["reader"] == "load":
                        b = type(o)()
                        sut(b.load, path, what="load")
                        return b
                    return sut(hv.read_settings_object_from_file, path, what="read_settings_object_from_file")
                b1, b2 = read_again(), read_again()
                mut = [a for a in b1.attrs if isinstance(getattr(b1, a), (list, dict, np.ndarray))]
                edited = False
                if mut:
                    attr = mut[op["which"] % len(mut)]
                    edited = bool(_mutate_in_place(attr, getattr(b1, attr), op))
                b3 = read_again()
                for name, b in (("the second object read from the file", b2), ("a third read of the file", b3)):
                    got = state_of(b)
                    if got != saved:
                        keys = [q for q in set(got) | set(saved) if got.get(q) != saved.get(q)]
                        raise Violation(f"{step}: an unchanged settings file was read twice and the first object edited in place ({attr if mut else None}); "
                                        f"{name} differs from what was saved in {keys}: {[(str(saved.get(q))[:70], str(got.get(q))[:70]) for q in keys][:2]}")
                live.extend([b1, b2])
                model.extend([state_of(b1), state_of(b2)])
                labels.append("same-file-read-twice")
                if edited:
                    nontrivial = True
                    labels.append("in-place-mutation")
                check_all(step)
            elif op["op"] == "process":
                i = op["obj"] % len(live)
                o = live[i]
                path = os.path.join(tmp, f"p{k}.json")
                sut(o.save, path, what="save")
                back = sut(hv.read_settings_object_from_file, path, what="read_settings_object_from_file")
                try:
                    r1 = _run(hv, o)
                except Refusal:
                    r1 = "refused"
                try:
                    r2 = _run(hv, back)
                except Refusal:
                    r2 = "refused"
                if r1 != r2:
                    raise Violation(f"{step}: processing with the reloaded {type(o).__name__} differs from processing with the original: "
                                    f"{snap_diff(r1, r2) if not isinstance(r1, str) and not isinstance(r2, str) else (str(r1)[:40], str(r2)[:40])}")
                labels.append("reloaded-process" if r1 != "refused" else "reloaded-process-refused")
                check_all(step)
    finally:
        shutil.rmtree(tmp, ignore_errors=True)
        _restore_pristine()
    return dict(labels=sorted(set(labels)), nontrivial=nontrivial)


_EXPECTED = {}


def _expected_defaults(hv, name):
    """Documented defaults, written out here (not read from the classes)."""
    if name in _EXPECTED:
        return copy.deepcopy(_EXPECTED[name])
    sm = dict(operator="konno_and_ohmachi", bandwidth=40, center_frequencies_in_hz=np.geomspace(0.1, 50, 200).tolist())
    ver = hv.__version__
    pre = dict(hvsrpy_version=ver, orient_to_degrees_from_north=0.0, filter_corner_frequencies_in_hz=[None, None], window_length_in_seconds=60.0,
               detrend="linear", ignore_dissimilar_time_step_warning=False)
    proc = dict(hvsrpy_version=ver, window_type_and_width=["tukey", 0.1], smoothing=sm, fft_settings=None,
                handle_dissimilar_time_steps_by="frequency_domain_resampling")
    d = {
        "HvsrPreProcessingSettings": dict(pre, preprocessing_method="hvsr"),
        "PsdPreProcessingSettings": dict(pre, window_type_and_width=["tukey", 0.1], fft_settings=None, instrument_transfer_function=None,
                                         differentiate=False, preprocessing_method="psd"),
        "PsdProcessingSettings": dict(proc, handle_dissimilar_time_steps_by="keeping_majority_time_step", processing_method="psd"),
        "HvsrTraditionalProcessingSettings": dict(proc, processing_method="traditional", method_to_combine_horizontals="geometric_mean"),
        "HvsrTraditionalSingleAzimuthProcessingSettings": dict(proc, processing_method="traditional", method_to_combine_horizontals="single_azimuth", azimuth_in_degrees=20.0),
        "HvsrTraditionalRotDppProcessingSettings": dict(proc, processing_method="traditional", method_to_combine_horizontals="rotdpp",
                                                        ppth_percentile_for_rotdpp_computation=50.0, azimuths_in_degrees=list(range(0, 180, 5))),
        "HvsrAzimuthalProcessingSettings": dict(proc, processing_method="azimuthal", azimuths_in_degrees=list(range(0, 180, 5))),
        "HvsrDiffuseFieldProcessingSettings": dict(proc, handle_dissimilar_time_steps_by="keeping_majority_time_step", processing_method="diffuse_field"),
    }
    _EXPECTED.update({k: content(v) for k, v in d.items()})
    return copy.deepcopy(_EXPECTED[name])


def _assign_value(attr, cur, op):
    v = op["value"]
    if attr == "window_type_and_width":
        return ["tukey", round(v, 3)] if op["index"] % 2 else ("tukey", round(v, 3))
    if attr == "smoothing":
        return dict(operator="konno_and_ohmachi", bandwidth=40, center_frequencies_in_hz=[1.0 + v, 5.0 + v, 20.0 + v])
    if attr == "fft_settings":
        return None if op["index"] % 2 else {"n": 2 ** 15}
    if attr == "azimuths_in_degrees":
        return [0.0, 45.0 + v, 90.0] if op["index"] % 2 else np.array([10.0, 100.0 + v])
    if attr == "filter_corner_frequencies_in_hz":
        return [1.0 + v, None] if op["index"] % 2 else (None, 20.0 + v)
    if attr == "window_length_in_seconds":
        return [None, 1.0, 0.5 + v, 2.0][op["index"]]
    if attr == "orient_to_degrees_from_north":
        return [None, 0.0, 360.0 * v, -45.0][op["index"]]
    if attr == "detrend":
        return ["linear", "constant", "none", None][op["index"]]
    if attr in ("ignore_dissimilar_time_step_warning", "differentiate"):
        return bool(op["index"] % 2)
    if attr == "handle_dissimilar_time_steps_by":
        return gen.POLICIES[op["index"] % 3]
    if attr == "method_to_combine_horizontals":
        return cur
    if attr in ("azimuth_in_degrees", "ppth_percentile_for_rotdpp_computation"):
        return 100.0 * v
    return cur


def _mutate_in_place(attr, cur, op):
    v = op["value"]
    if attr == "window_type_and_width" and isinstance(cur, list):
        cur[1] = round(v, 3)
        return True
    if attr == "smoothing" and isinstance(cur, dict):
        c = cur.get("center_frequencies_in_hz")
        if op["index"] % 2 == 0 and isinstance(c, (list, np.ndarray)) and len(c):
            c[op["index"] % len(c)] = float(c[op["index"] % len(c)]) * (1 + 0.01 * v)
        else:
            cur["bandwidth"] = cur["bandwidth"] * (1 + 0.1 * v)
        return True
    if attr == "fft_settings" and isinstance(cur, dict):
        cur["n"] = 2 ** 16
        return True
    if attr in ("azimuths_in_degrees", "filter_corner_frequencies_in_hz") and isinstance(cur, (list, np.ndarray)) and len(cur):
        j = op["index"] % len(cur)
        if isinstance(cur, np.ndarray) and cur.dtype.kind in "iu":
            cur[j] = cur[j] + 7          # the default azimuth vector is an integer array
        else:
            cur[j] = (float(cur[j]) if cur[j] is not None else 1.0) + v
        return True
    return False
