"""C17 - Power spectral densities are correctly normalised; diffuse-field HVSR agrees."""
import math

import numpy as np
from hypothesis import strategies as st

from .. import gen, oracle
from ..core import Violation, Refusal, require, sut, close, same_bits, rel_err

ID = "C17"
RULE = ("Cases: 1-6 three-component windows of equal length (16-800 samples), a time step, Tukey width, amplitude scale, FFT "
        "length (default / explicit / record length incl. odd lengths), smoothing off or any operator; for PSD preprocessing a "
        "flat or pole-zero instrument response (or none) with differentiation on/off, plus an on-bin Hann-tapered sinusoid for "
        "the analytic derivative. Non-trivial = no component is constant and >= 2 windows (Welch) or a response/derivative "
        "branch is exercised; distinct by SHA-1 of the case."
        ' Scale pass: 1-3 windows of 2^14-150 000 samples with FFT length None/2^15/2^16/2^17/record length.')
ASSUMPTIONS = [
    "numpy.fft and scipy.signal.windows.tukey are trusted; the oracle states Parseval's identity, the Welch average, the kernel average and the transfer-function division explicitly",
    "the same window objects are handed to successive process() calls on purpose (process must not modify them)",
    "Parseval rtol 1e-10, Welch rtol 1e-12, smoothing/diffuse field rtol 1e-9, preprocessing rtol 1e-9 of the series' peak",
]
BUDGET = {"quick": 960, "thorough": 24000}
SHARDS = {"quick": 8, "thorough": 16}
TECHNIQUE = "property-based testing: Parseval identity, exact 4^k scaling, Welch average, reference smoothing, own transfer-function evaluation, analytic derivative"


@st.composite
def strategy(draw):
    dt = draw(gen.choice(gen.DTS))
    n = draw(st.one_of(st.integers(16, 200), st.integers(16, 800)))
    nwin = draw(st.integers(1, 6))
    exp = draw(st.one_of(st.integers(-6, 6), st.just(-10)))
    many = draw(gen.chance(30))
    if many:
        # long deployments: hundreds of (short) windows in one call
        nwin = draw(st.sampled_from([129, 130, 200, 257, 300]))
        n = draw(st.integers(16, 48))
        base = draw(gen.recording_recipe(n=n, dt=dt, scale_exp=(exp, exp), dfn_range=(0, 0), kinds=("noise",)))
        seed0 = draw(gen.seeds32)
        wins = []
        for i in range(nwin):
            w = {k: (dict(v) if isinstance(v, dict) else v) for k, v in base.items()}
            for c in ("ns", "ew", "vt"):
                w[c]["seed"] = (seed0 + 7919 * i + 13 * len(c)) % (2 ** 32)
                w[c]["scale_exp"] = exp + (i % 3) - 1          # windows of different energy
                w[c].pop("burst", None)
            wins.append(w)
    else:
        wins = [draw(gen.recording_recipe(n=n, dt=dt, scale_exp=(exp, exp), dfn_range=(0, 0))) for _ in range(nwin)]
    fft = draw(st.sampled_from([None, None, "record-length", 2 ** 15, 2 ** 16]))
    nfft = n if fft == "record-length" else max(oracle.nextpow2(n), fft or 0)
    op, bw = draw(gen.operator_and_bandwidth())
    fcs = draw(gen.center_frequencies(op, bw, 1.0 / (nfft * dt), 0.5 / dt, max_size=15))
    if fcs is None:
        op, bw = "konno_and_ohmachi", 10.0
        fcs = draw(gen.center_frequencies(op, bw, 1.0 / (nfft * dt), 0.5 / dt, max_size=15))
    if fcs is None:
        fft, nfft = None, oracle.nextpow2(n)
        fcs = draw(gen.center_frequencies(op, bw, 1.0 / (nfft * dt), 0.5 / dt, max_size=15))
    resp_kind = draw(st.sampled_from(["none", "flat", "flat", "polezero"]))
    resp = None
    if resp_kind == "flat":
        resp = dict(poles=[], zeros=[], sensitivity=draw(gen.log_floats(1e-2, 1e9)), normalization=draw(gen.log_floats(1e-3, 1e3)))
    elif resp_kind == "polezero":
        w0 = 2 * math.pi * draw(gen.log_floats(0.05, 5.0))
        h = draw(gen.floats(0.3, 0.9))
        re, im = -h * w0, w0 * math.sqrt(1 - h * h)
        resp = dict(poles=[[re, im], [re, -im]], zeros=[[0.0, 0.0], [0.0, 0.0]][:draw(st.integers(1, 2))],
                    sensitivity=draw(gen.log_floats(1e-2, 1e6)), normalization=draw(gen.log_floats(1e-2, 1e2)))
    return dict(dt=dt, n=n, windows=wins, width=draw(st.one_of(gen.floats(0.001, 1), st.sampled_from([0.0, 0.1, 1.0]))), fft=fft,
                op=op, bw=bw, fcs=fcs, smoothing=draw(st.booleans()), k=draw(st.sampled_from([-6, -1, 2, 7])),
                response=resp, differentiate=draw(st.booleans()), tone_bin=draw(st.integers(3, 12)), pre_fft=draw(st.sampled_from([None, 2 ** 15, "record-length"])))


BIG = {"quick": 16, "thorough": 128}


@st.composite
def strategy_big(draw):
    """Long windows: 2^14 .. 2^17.2 samples (beyond the 2^15 minimum FFT length), 1-3 windows, FFT length None /
    32768 / 65536 / 131072 / record length."""
    case = draw(strategy())
    n = draw(gen.big_size(2 ** 14, 150_000))
    case["n"] = n
    wins = case["windows"][:draw(st.sampled_from([1, 2, 3]))]
    for w in wins:
        w["n"] = n
    case["windows"] = wins
    fft = draw(st.sampled_from([None, None, 2 ** 15, 2 ** 16, 2 ** 17, "record-length"]))
    nfft = n if (fft == "record-length" or fft == n) else max(oracle.nextpow2(n), fft or 0)      # a requested n equal to the window length is honoured as it is
    case["fft"] = fft
    case["pre_fft"] = draw(st.sampled_from([None, 2 ** 15, 2 ** 16, "record-length"]))
    op, bw = case["op"], case["bw"]
    fcs = draw(gen.center_frequencies(op, bw, 1.0 / (nfft * case["dt"]), 0.5 / case["dt"], max_size=8))
    if fcs is None:
        op, bw = "konno_and_ohmachi", 40.0
        fcs = draw(gen.center_frequencies(op, bw, 1.0 / (nfft * case["dt"]), 0.5 / case["dt"], max_size=8))
    case.update(op=op, bw=bw, fcs=fcs, big=True)
    return case


def warmup():
    from . import c02
    c02.warmup()


def _H(resp, f):
    s = 2j * math.pi * f
    h = np.ones_like(s)
    for z in resp["zeros"]:
        h = h * (s - complex(*z))
    for p in resp["poles"]:
        h = h / (s - complex(*p))
    return h * resp["normalization"] * resp["sensitivity"]


def check_case(case):
    import hvsrpy as hv
    from hvsrpy.instrument_response import InstrumentTransferFunction
    dt, n, width = case["dt"], case["n"], case["width"]
    arrays = [gen.expand_recording_arrays(w) for w in case["windows"]]
    nwin = len(arrays)
    labels = [f"fft={case['fft']}"] + (["big-2^%d-samples" % int(math.log2(n))] if case.get("big") else [])
    TS, R = hv.TimeSeries, hv.SeismicRecording3C
    recs = [R(TS(a, dt), TS(b, dt), TS(c, dt)) for a, b, c in arrays]      # re-used across calls on purpose

    def spec(method, smoothing=True):
        return dict(method=method, op=case["op"], bw=case["bw"], fcs=case["fcs"], width=width, fft_n=case["fft"], policy="keeping_majority_time_step",
                    psd_smoothing=smoothing, fcs_as="ndarray")

    sg = case["op"] == "savitzky_and_golay"      # negative coefficients: a smoothed density can come out < 0 and is then refused

    def psd(records, smoothing=False):
        s = gen.make_settings(hv, spec("psd", smoothing))
        out = sut(hv.process, records, s, allow=(ValueError,) if (smoothing and sg) else (), what="process[psd]")
        return out, s.fft_settings["n"]

    raw, N = psd(recs)
    want_N = n if (case["fft"] == "record-length" or case["fft"] == n) else max(oracle.nextpow2(n), case["fft"] or 0)
    require(N == want_N, f"FFT length {N}, expected {want_N}")
    fgrid = np.fft.rfftfreq(N, dt)
    w = oracle.taper(n, width)
    U = float(np.mean(w ** 2))
    df = 1.0 / (N * dt)
    comps = ("ns", "ew", "vt")
    for ci, c in enumerate(comps):
        P = np.asarray(raw[c].amplitude, dtype=float)
        require(same_bits(raw[c].frequency, fgrid), f"PSD frequency vector of {c} is not rfftfreq(N, dt)")
        require(P.shape == fgrid.shape and np.all(P >= 0) and np.all(np.isfinite(P)), f"PSD of {c} has negative / non-finite values or a wrong shape")
        # Parseval
        total = 0.0
        for arr in arrays:
            xw = arr[ci] * w
            X = np.fft.rfft(xw, N)
            edge = abs(X[0]) ** 2 + (abs(X[-1]) ** 2 if N % 2 == 0 else 0.0)
            total += (np.sum(xw ** 2) / n - edge / (n * N)) / U
        total /= nwin
        inner = P[1:-1] if N % 2 == 0 else P[1:]
        got = float(np.sum(inner) * df)
        scale = float(np.mean([np.sum((arr[ci] * w) ** 2) / n for arr in arrays])) / U
        if not close(got, total, rtol=1e-10, atol=1e-12 * scale):
            raise Violation(f"Parseval: PSD of {c} summed between 0 Hz and Nyquist times df = {got!r}, the tapered signal carries {total!r} there "
                            f"(ratio {got / total if total else float('nan'):.6g}; n={n}, N={N}, dt={dt:.6g}, tukey {width:.4g}, {nwin} windows)")
    # amplitude x 2^k -> PSD x 4^k exactly
    s2 = 2.0 ** case["k"]
    recs2 = [R(TS(a * s2, dt), TS(b * s2, dt), TS(c * s2, dt)) for a, b, c in arrays]
    sc, _ = psd(recs2)
    for c in comps:
        if not same_bits(np.asarray(sc[c].amplitude), np.asarray(raw[c].amplitude) * s2 * s2):
            raise Violation(f"PSD of {c} does not scale with the square of the amplitude (x2^{case['k']}): rel err {rel_err(sc[c].amplitude, np.asarray(raw[c].amplitude) * s2 * s2):.3g}")
    # Welch: several windows = average of the single-window densities (same objects, processed again)
    if nwin > 12:
        for ci, c in enumerate(comps):
            refp = oracle.ref_psd([a[ci] for a in arrays], dt, width, N)
            if not close(raw[c].amplitude, refp, rtol=1e-10, atol=1e-14 * float(np.max(refp))):
                raise Violation(f"Welch: PSD of {c} over {nwin} windows is not the average of the single-window densities (rel err {rel_err(raw[c].amplitude, refp):.3g})")
        labels.append("many-windows")
    elif nwin >= 2:
        singles = [psd([r])[0] for r in recs]
        for c in comps:
            avg = np.mean([np.asarray(s_[c].amplitude) for s_ in singles], axis=0)
            if not close(raw[c].amplitude, avg, rtol=1e-12, atol=0):
                raise Violation(f"Welch: PSD of {c} over {nwin} windows is not the average of the single-window densities (rel err {rel_err(raw[c].amplitude, avg):.3g})")
        labels.append("welch")
        again, _ = psd(recs)
        for c in comps:
            require(same_bits(again[c].amplitude, raw[c].amplitude), f"PSD of {c} changes when the same windows are processed again")
    # smoothing on -> kernel average of the raw PSD at the centre frequencies
    fcs = np.array(case["fcs"], dtype=float)
    sm = None
    if case["smoothing"]:
        try:
            sm, _ = psd(recs, smoothing=True)
        except Refusal:
            labels.append("sg-negative-refused")
    if sm is not None:
        for c in comps:
            ref, amb = oracle.ref_smooth(case["op"], fgrid, np.asarray(raw[c].amplitude), fcs, case["bw"])
            require(same_bits(sm[c].frequency, fcs), "smoothed PSD is not sampled at the requested centre frequencies")
            keep = ~amb
            if not close(np.asarray(sm[c].amplitude)[keep], ref[0][keep], rtol=1e-9, atol=1e-12 * float(np.max(raw[c].amplitude))):
                raise Violation(f"smoothed PSD of {c} ({case['op']}, bw {case['bw']:.4g}) is not the kernel average of the raw PSD (rel err {rel_err(np.asarray(sm[c].amplitude)[keep], ref[0][keep]):.3g})")
        labels.append("smoothed-psd")
    # diffuse field = sqrt(smooth(Pns + Pew) / smooth(Pvt)) from the un-smoothed densities of the same windows
    dset = gen.make_settings(hv, spec("diffuse_field"))
    try:
        dres = sut(hv.process, recs, dset, allow=(ValueError,) if sg else (), what="process[diffuse_field]")
    except Refusal:
        dres = None
    hor, a1 = oracle.ref_smooth(case["op"], fgrid, np.asarray(raw["ns"].amplitude) + np.asarray(raw["ew"].amplitude), fcs, case["bw"])
    ver, a2 = oracle.ref_smooth(case["op"], fgrid, np.asarray(raw["vt"].amplitude), fcs, case["bw"])
    keep = ~(a1 | a2) & (ver[0] > 0)
    with np.errstate(all="ignore"):
        expect = np.sqrt(hor[0] / ver[0])
    if dres is not None and not close(np.asarray(dres.amplitude)[keep], expect[keep], rtol=1e-9):
        raise Violation(f"diffuse-field HVSR differs from sqrt(smooth(P_ns + P_ew) / smooth(P_vt)) of the same windows (rel err {rel_err(np.asarray(dres.amplitude)[keep], expect[keep]):.3g}; "
                        f"{case['op']}, tukey {width:.4g}, {nwin} windows)")

    # ---- PSD preprocessing: response removal / differentiation ------------------------
    resp, diff = case["response"], case["differentiate"]
    if resp is not None or diff:
        itf = None if resp is None else InstrumentTransferFunction([complex(*p) for p in resp["poles"]], [complex(*z) for z in resp["zeros"]],
                                                                   resp["sensitivity"], resp["normalization"])
        pre_fft = case["pre_fft"]
        pset = hv.PsdPreProcessingSettings(orient_to_degrees_from_north=None, filter_corner_frequencies_in_hz=[None, None], window_length_in_seconds=None,
                                           detrend=None, window_type_and_width=["tukey", width],
                                           fft_settings=None if pre_fft is None else ({"n": None} if pre_fft == "record-length" else {"n": pre_fft}),
                                           instrument_transfer_function=itf, differentiate=diff)
        rec0 = R(TS(arrays[0][0], dt), TS(arrays[0][1], dt), TS(arrays[0][2], dt))
        out = sut(hv.preprocess, [rec0], pset, what="preprocess[psd]")
        Np = pset.fft_settings["n"]
        require(len(out) == 1 and out[0].ns.n_samples == n, "PSD preprocessing without splitting must return one record of the same length")
        fp = np.fft.rfftfreq(Np, dt)
        for ci, c in enumerate(comps):
            x = arrays[0][ci]
            y = (x - np.mean(x)) * w                      # mean removed, then tapered
            peak = max(float(np.max(np.abs(y))), 1e-300)
            nyq_amb = 0.0
            if resp is not None:
                Y = np.fft.rfft(y, Np)
                Hf = _H(resp, fp)
                inv = np.zeros_like(Hf)
                nz = np.abs(Hf) > 0
                inv[nz] = 1.0 / Hf[nz]
                inv[0] = 0.0
                if Np % 2 == 0:
                    # the Nyquist term of a real series is real: after a complex factor its imaginary part is dropped, so the
                    # order of the two frequency-domain steps matters for that one term - not decided
                    nyq_amb = float(abs(Y[-1] * inv[-1])) / Np * (2 * math.pi * float(fp[-1]) if diff else 0.0)
                y = np.fft.irfft(Y * inv, Np)[:n]
                if not resp["poles"]:
                    flat = (((x - np.mean(x)) * w) - np.sum((x - np.mean(x)) * w) / Np) / (resp["sensitivity"] * resp["normalization"])
                    if not close(y, flat, rtol=1e-9, atol=1e-10 * peak / (resp["sensitivity"] * resp["normalization"])):
                        raise Violation("harness: flat-response closed form disagrees with the generic division")
            if diff:
                y = np.fft.irfft(2j * math.pi * fp * np.fft.rfft(y, Np), Np)[:n]
            have = getattr(out[0], c).amplitude
            ypk = max(float(np.max(np.abs(y))), 1e-300)
            if not close(have, y, rtol=1e-9, atol=1e-9 * ypk + 2.0 * nyq_amb):
                raise Violation(f"PSD preprocessing of {c} (response {'none' if resp is None else ('flat' if not resp['poles'] else 'pole-zero')}, differentiate={diff}, "
                                f"tukey {width:.4g}, N={Np}) differs from the expected series: max error {float(np.max(np.abs(have - y))) / ypk:.3g} of its peak")
        labels.append("response-" + ("none" if resp is None else ("flat" if not resp["poles"] else "polezero")) + ("+diff" if diff else ""))
        # a list of recordings with different time steps (allowed, with a warning): every recording is treated as if alone
        if not case.get("big"):
            dt_b = dt * (0.5 if dt > 0.004 else 2.5)
            other = arrays[-1]

            def mk(d, arr):
                return R(TS(arr[0], d), TS(arr[1], d), TS(arr[2], d))

            def pre(records):
                ps = hv.PsdPreProcessingSettings(orient_to_degrees_from_north=None, filter_corner_frequencies_in_hz=[None, None], window_length_in_seconds=None,
                                                 detrend=None, window_type_and_width=["tukey", width],
                                                 fft_settings=None if pre_fft is None else ({"n": None} if pre_fft == "record-length" else {"n": pre_fft}),
                                                 instrument_transfer_function=itf, differentiate=diff)
                import warnings
                with warnings.catch_warnings():
                    warnings.simplefilter("ignore")
                    return sut(hv.preprocess, records, ps, what="preprocess[psd]")
            both = pre([mk(dt, arrays[0]), mk(dt_b, other)])
            alone = pre([mk(dt_b, other)])
            require(len(both) == 2 and len(alone) == 1, "PSD preprocessing without splitting must return one record per input record")
            for cname in comps:
                a_, b_ = getattr(both[1], cname).amplitude, getattr(alone[0], cname).amplitude
                pk_ = max(float(np.max(np.abs(b_))), 1e-300)
                if a_.shape != b_.shape or not close(a_, b_, rtol=1e-9, atol=1e-10 * pk_):
                    raise Violation(f"PSD preprocessing ({'response ' if resp is not None else ''}{'differentiate' if diff else ''}) of a recording with time step {dt_b:.6g} s "
                                    f"depends on the recording listed before it (time step {dt:.6g} s): component {cname} differs by "
                                    f"{float(np.max(np.abs(a_ - b_))) / pk_ if a_.shape == b_.shape else float('inf'):.3g} of its peak from the recording preprocessed alone")
            labels.append("preprocess-list-mixed-dt")
        # analytic derivative of a Hann-tapered on-bin sinusoid
        if diff and resp is None:
            m = 512
            kbin = case["tone_bin"]
            t = np.arange(m) * dt
            fr = kbin / (m * dt)
            wh = oracle.taper(m, 1.0)
            x = np.sin(2 * math.pi * fr * t)
            pset2 = hv.PsdPreProcessingSettings(orient_to_degrees_from_north=None, filter_corner_frequencies_in_hz=[None, None], window_length_in_seconds=None,
                                                detrend=None, window_type_and_width=["tukey", 1.0], fft_settings=None, differentiate=True)
            o2 = sut(hv.preprocess, [R(TS(x, dt), TS(x, dt), TS(x, dt))], pset2, what="preprocess[psd]")
            xm = x - np.mean(x)
            dwh = np.gradient(wh, dt)
            analytic = dwh * xm + wh * 2 * math.pi * fr * np.cos(2 * math.pi * fr * t)
            err = float(np.max(np.abs(o2[0].vt.amplitude - analytic))) / float(np.max(np.abs(analytic)))
            if err > 2e-2:
                raise Violation(f"differentiation of a Hann-tapered {fr:.4g} Hz sinusoid differs from the analytic derivative by {err:.3g} of its peak (missing 2*pi, sign or 1/dt?)")
            labels.append("analytic-derivative")
    nonconst = all(np.ptp(c) > 0 for a in arrays for c in a)
    return dict(labels=labels, nontrivial=bool(nonconst and (nwin >= 2 or resp is not None or diff)))
