"""C18 - Recordings persist exactly; copies are independent; trim keeps the right samples."""
import math
import os
import shutil
import tempfile

import numpy as np
from hypothesis import strategies as st
from scipy import signal

from .. import gen
from ..core import Violation, Refusal, require, sut, close, same_bits, snap, snap_diff, foreign_check

ID = "C18"
RULE = ("Cases: one three-component recording (60-1200 samples, drawn recipes, drawn time step and orientation in "
        "[-720,720], optional metadata) and a history of 1-8 operations: trim (ends on and between samples, also illegal "
        "ranges), Butterworth filter, detrend, taper, re-orientation, save->load, the three copy constructors, splitting (of "
        "the recording and of single components); after every copy one side is edited in place. Non-trivial = >= 2 modifying "
        "operations precede a save or copy; distinct by SHA-1 of the case."
        ' Metadata: none, plain ASCII, or practical text (accents, CJK, astral characters, lone surrogates from os.fsdecode); a third of the non-ASCII histories with a save/load are also evaluated in an ASCII-locale child interpreter.')
ASSUMPTIONS = [
    "trim times may lie (to within an ulp) half-way between two samples: the nearest sample is then decided in exact rational arithmetic on the float values and exact ties are skipped",
    "the model applies the same scipy/numpy primitives (butter/sosfiltfilt, detrend, tukey) to plain arrays; only bookkeeping (which samples, which components, copies, persistence) is under test",
]
BUDGET = {"quick": 1600, "thorough": 40000}
SHARDS = {"quick": 8, "thorough": 16}
TECHNIQUE = "model-based property testing over operation histories: array model, bit-exact save/load round trip, shares_memory and edit-one-side independence"

COMPS = ("ns", "ew", "vt")


@st.composite
def strategy(draw):
    dt = draw(gen.choice(gen.DTS))
    n = draw(st.one_of(st.integers(60, 300), st.integers(60, 1200)))
    rec = draw(gen.recording_recipe(n=n, dt=dt, scale_exp=(-6, 6)))
    ops = []
    for _ in range(draw(st.integers(2, 9))):
        o = draw(gen.choice(["trim", "trim", "filter", "detrend", "taper", "orient", "saveload", "copy", "split", "tsplit", "badtrim"]))
        if o == "trim":
            ops.append(dict(op="trim", a=draw(gen.floats(0, 0.6)), b=draw(gen.floats(0.05, 1.0)),
                            pa=draw(st.sampled_from([0.0, 0.0, 0.3, -0.3, 0.45, -0.45, 0.1, 0.5, 0.5])), pb=draw(st.sampled_from([0.0, 0.0, 0.3, -0.3, 0.45, -0.45, -0.2, 0.5, -0.5]))))
        elif o == "badtrim":
            ops.append(dict(op="badtrim", kind=draw(st.sampled_from(["negative-start", "start-after-end", "end-beyond", "equal"]))))
        elif o == "filter":
            ops.append(dict(op="filter", kind=draw(st.sampled_from(["high", "low", "band"])), lo=draw(gen.floats(0.02, 0.3)), hi=draw(gen.floats(0.4, 0.9)),
                            as_tuple=draw(st.booleans())))
        elif o == "detrend":
            ops.append(dict(op="detrend", type=draw(st.sampled_from(["linear", "constant"]))))
        elif o == "taper":
            ops.append(dict(op="taper", width=draw(st.one_of(gen.floats(0.01, 1.0), st.sampled_from([0.1, 1.0])))))
        elif o == "orient":
            ops.append(dict(op="orient", to=draw(st.one_of(gen.floats(-720, 720), st.sampled_from([0.0, 90.0, 400.0, -30.0])))))
        elif o == "copy":
            ops.append(dict(op="copy", how=draw(st.sampled_from(["from_recording", "from_timeseries", "constructor"])),
                            edit=draw(st.sampled_from(["copy", "source"])), continue_with=draw(st.sampled_from(["source", "copy"]))))
        elif o in ("split", "tsplit"):
            ops.append(dict(op=o, frac=draw(gen.floats(0.1, 0.6)), edit=draw(st.sampled_from(["window", "source", "window"])), which=draw(st.integers(0, 5))))
        else:
            ops.append(dict(op="saveload"))
    # metadata: none, plain ASCII, or text as it occurs in practice (accented / non-Latin station and file names,
    # names that are not valid UTF-8 on disk and reach Python as lone surrogates through os.fsdecode)
    words = st.one_of(st.sampled_from(["Z\u00fcrich-H\u00f6ngg", "S\u00e3o Paulo", "\u6771\u4eac", "sta\u021bia_7", "fichier_\udce9t\udce9.mseed",
                                        "\U0001f30b crater rim", "na\u00efve", "plain"]),
                      st.text(alphabet=st.characters(min_codepoint=0x20, max_codepoint=0x30ff, blacklist_categories=["Cs"]), min_size=1, max_size=10))
    meta = draw(st.one_of(st.none(), st.just({"site": "A-12", "operator": ["x", "y"], "gain": 2.5}),
                          st.fixed_dictionaries({"site": words, "file name(s)": st.lists(words, min_size=1, max_size=3), "gain": gen.floats(0.1, 10)},
                                                optional={"operator": words})))
    text = meta is not None and any(ord(ch) > 127 for ch in str(meta))
    # raw digitiser counts: every sample a whole number (zeros of either sign after a polarity flip), optionally shifted
    # beyond the int64 range - values a writer might be tempted to store as integers (seeded change C18-R6B)
    counts = None
    if draw(gen.chance(4)):
        counts = dict(full_scale=draw(st.sampled_from([1, 3, 20, 1000, 2 ** 23])), flip=draw(st.booleans()),
                      shift=draw(st.sampled_from([0, 0, 0, 40, 63, 70])))
        if draw(st.booleans()):
            ops.insert(0, dict(op="saveload"))
    return dict(rec=rec, ops=ops, meta=meta, counts=counts,
                # the same history evaluated in an interpreter whose default text encoding is not UTF-8 (legacy locale / Windows)
                foreign=bool(text and any(o["op"] == "saveload" for o in ops) and draw(gen.chance(3))))


BIG = {"quick": 8, "thorough": 64}


@st.composite
def strategy_big(draw):
    """Long recordings: 2^15 .. 2^19 samples per component, histories of up to four operations incl. a save/load."""
    case = draw(strategy())
    case["rec"]["n"] = draw(gen.big_size(2 ** 15, 2 ** 19))
    ops = case["ops"][:3]
    if not any(o["op"] == "saveload" for o in ops):
        ops.append(dict(op="saveload"))
    case.update(ops=ops, foreign=False, big=True)
    return case


def _content(x):
    """Content view for metadata comparison: tuple == list."""
    if isinstance(x, dict):
        return {str(k): _content(v) for k, v in x.items()}
    if isinstance(x, (list, tuple)):
        return [_content(v) for v in x]
    if isinstance(x, (np.floating, np.integer)):
        return x.item()
    return x


def _ang_eq(x, y):
    return abs(((float(x) - float(y) + 180.0) % 360.0) - 180.0) <= 1e-9


def check_case(case):
    import hvsrpy as hv
    TS, R = hv.TimeSeries, hv.SeismicRecording3C
    r = case["rec"]
    dt = r["dt"]
    model = dict(zip(COMPS, gen.expand_recording_arrays(r)))
    labels = []
    cnt = case.get("counts")
    if cnt:
        for c in COMPS:
            m = np.round(model[c] / max(float(np.max(np.abs(model[c]))), 1e-300) * cnt["full_scale"])
            m = -m if cnt["flip"] else m
            model[c] = m * 2.0 ** cnt["shift"]
        labels.append("whole-number-counts")
        if any(np.any((model[c] == 0) & np.signbit(model[c])) for c in COMPS):
            labels.append("negative-zero-samples")
        if any(np.max(np.abs(model[c])) >= 2.0 ** 63 for c in COMPS):
            labels.append("whole-numbers-beyond-int64")
    rec = R(*(TS(model[c], dt) for c in COMPS), degrees_from_north=r["degrees_from_north"], meta=case["meta"])
    orient = float(rec.degrees_from_north)
    modifying = 0
    nontrivial = False
    tmp = tempfile.mkdtemp(prefix="vf-c18-")

    def agree(what, tol=1e-9):
        hscale = max(float(np.max(np.abs(model["ns"]))), float(np.max(np.abs(model["ew"]))), 1e-300)
        for c in COMPS:
            have = getattr(rec, c).amplitude
            # a rotation mixes the horizontals (sin(360 deg) = -2.4e-16, not 0): their rounding is relative to the larger of the two
            scale = hscale if c in ("ns", "ew") else max(float(np.max(np.abs(model[c]))), 1e-300)
            if have.shape != model[c].shape:
                raise Violation(f"{what}: component {c} has {len(have)} samples, the model has {len(model[c])}")
            if not close(have, model[c], rtol=tol, atol=tol * scale):
                raise Violation(f"{what}: component {c} differs from the model (max error {float(np.max(np.abs(have - model[c]))) / scale:.3g} of scale)")
            require(getattr(rec, c).dt_in_seconds == dt, f"{what}: time step of {c} changed")
        for c in COMPS:
            model[c] = getattr(rec, c).amplitude.copy()      # re-synchronise: rounding must not accumulate over the history

    def independent(a_ts, b_ts, what):
        if np.shares_memory(a_ts.amplitude, b_ts.amplitude):
            raise Violation(f"{what}: sample storage is shared (np.shares_memory)")

    try:
        for k, op in enumerate(case["ops"], start=1):
            name = op["op"]
            n = len(model["ns"])
            step = f"op {k} ({name})"
            if name == "trim":
                i0 = int(op["a"] * (n - 2))
                i1 = int(i0 + 1 + op["b"] * (n - 2 - i0))
                i1 = min(max(i1, i0 + 1), n - 1)
                ta = max(0.0, (i0 + op["pa"]) * dt)
                tb = min((n - 1) * dt, (i1 + op["pb"]) * dt)
                # expected nearest samples, computed on the time vector the recording itself exposes
                tvec = np.arange(n) * dt

                def nearest_exact(t):
                    """nearest sample time to t, decided in exact rational arithmetic on the float values; None on an exact tie"""
                    from fractions import Fraction
                    k = int(np.argmin(np.abs(tvec - t)))
                    best = None
                    for j in range(max(0, k - 1), min(n, k + 2)):
                        dj = abs(Fraction(float(tvec[j])) - Fraction(float(t)))
                        if best is None or dj < best[0]:
                            best = (dj, j, False)
                        elif dj == best[0]:
                            best = (dj, best[1], True)
                    return None if best[2] else best[1]
                e0, e1 = nearest_exact(ta), nearest_exact(tb)
                if e0 is None or e1 is None:
                    labels.append("exact-tie-skipped")
                    continue
                if not ta < tb or e1 <= e0:
                    continue
                if abs(op["pa"]) == 0.5 or abs(op["pb"]) == 0.5:
                    labels.append("trim-near-midpoint")
                prev = {c: getattr(rec, c).amplitude.copy() for c in COMPS}
                try:
                    sut(rec.trim, ta, tb, allow=(IndexError,), what="trim")
                except Refusal as rf:
                    raise Violation(f"trim({ta!r}, {tb!r}) on a record of {(n - 1) * dt!r} s was refused: {rf.exc}")
                for c in COMPS:
                    model[c] = model[c][e0:e1 + 1]
                    have = getattr(rec, c).amplitude
                    if len(have) != e1 - e0 + 1 or not same_bits(have, prev[c][e0:e1 + 1]):
                        raise Violation(f"trim({ta!r}, {tb!r}) with dt={dt!r}: component {c} keeps {len(have)} samples starting "
                                        f"{'elsewhere' if len(have) and have[0] != prev[c][e0] else 'correctly'}; expected samples {e0}..{e1} (nearest to start and end)")
                modifying += 1
                labels.append("trim-off-grid" if (op["pa"] or op["pb"]) else "trim-on-grid")
            elif name == "badtrim":
                end = (n - 1) * dt
                ta, tb = {"negative-start": (-0.5 * dt - 1e-3, end * 0.5), "start-after-end": (end * 0.7, end * 0.3),
                          "end-beyond": (0.0, end + dt), "equal": (end * 0.5, end * 0.5)}[op["kind"]]
                saved = {c: getattr(rec, c).amplitude.copy() for c in COMPS}
                try:
                    sut(rec.trim, ta, tb, allow=(IndexError,), what="trim")
                    raise Violation(f"trim({ta!r}, {tb!r}) ({op['kind']}) on a record ending at {end!r} s was not refused")
                except Refusal:
                    pass
                for c in COMPS:
                    require(same_bits(getattr(rec, c).amplitude, saved[c]), f"a refused trim ({op['kind']}) altered component {c}")
                labels.append("illegal-trim-refused")
            elif name == "filter":
                fnyq = 0.5 / dt
                lo, hi = op["lo"] * fnyq, op["hi"] * fnyq
                if n < 40:
                    continue
                corners = {"high": (lo, None), "low": (None, hi), "band": (lo, hi)}[op["kind"]]
                btype = {"high": "highpass", "low": "lowpass", "band": "bandpass"}[op["kind"]]
                wn = lo if op["kind"] == "high" else hi if op["kind"] == "low" else [lo, hi]
                sos = signal.butter(5, wn, btype, fs=1.0 / dt, output="sos")
                sut(rec.butterworth_filter, corners if op["as_tuple"] else list(corners), what="butterworth_filter")
                for c in COMPS:
                    model[c] = signal.sosfiltfilt(sos, model[c])
                modifying += 1
            elif name == "detrend":
                sut(rec.detrend, op["type"], what="detrend")
                for c in COMPS:
                    model[c] = signal.detrend(model[c], type=op["type"])
                modifying += 1
            elif name == "taper":
                sut(rec.window, "tukey", op["width"], what="window")
                w = signal.windows.tukey(n, alpha=op["width"])
                for c in COMPS:
                    model[c] = model[c] * w
                modifying += 1
            elif name == "orient":
                delta = math.radians(op["to"] - orient)
                c_, s_ = math.cos(delta), math.sin(delta)
                ns, ew = model["ns"], model["ew"]
                model["ns"], model["ew"] = ns * c_ + ew * s_, -ns * s_ + ew * c_
                sut(rec.orient_sensor_to, op["to"], what="orient_sensor_to")
                orient = op["to"]
                modifying += 1
            elif name == "saveload":
                path = os.path.join(tmp, f"rec{k}.json")
                sut(rec.save, path, what="save")
                back = sut(R.load, path, what="load")
                for c in COMPS:
                    a, b = getattr(rec, c), getattr(back, c)
                    if not same_bits(a.amplitude, b.amplitude):
                        bad = int(np.flatnonzero(a.amplitude != b.amplitude)[0]) if len(a.amplitude) == len(b.amplitude) else -1
                        raise Violation(f"save/load: component {c} not restored bit for bit ({len(b.amplitude)} vs {len(a.amplitude)} samples; first difference at {bad})")
                    require(a.dt_in_seconds == b.dt_in_seconds, f"save/load: time step {b.dt_in_seconds!r} != {a.dt_in_seconds!r}")
                require(_ang_eq(back.degrees_from_north, rec.degrees_from_north), f"save/load: orientation {back.degrees_from_north} != {rec.degrees_from_north}")
                ma, mb = _content(rec.meta), _content(back.meta)
                for key in ("deployed degrees from north", "current degrees from north"):
                    if key in ma and key in mb and _ang_eq(ma[key], mb[key]):
                        mb[key] = ma[key]
                if ma != mb:
                    diff = [key for key in set(ma) | set(mb) if ma.get(key) != mb.get(key)]
                    raise Violation(f"save/load: metadata content differs for keys {diff}: {[(ma.get(q), mb.get(q)) for q in diff][:3]}")
                rec = back
                labels.append("save-load")
                if modifying >= 2:
                    nontrivial = True
            elif name == "copy":
                if op["how"] == "from_recording":
                    cp = sut(R.from_seismic_recording_3c, rec, what="from_seismic_recording_3c")
                    pairs = [(getattr(rec, c), getattr(cp, c)) for c in COMPS]
                elif op["how"] == "from_timeseries":
                    parts = [sut(TS.from_timeseries, getattr(rec, c), what="from_timeseries") for c in COMPS]
                    pairs = [(getattr(rec, c), p) for c, p in zip(COMPS, parts)]
                    cp = R(*parts, degrees_from_north=rec.degrees_from_north, meta=rec.meta)
                    pairs += [(p, getattr(cp, c)) for c, p in zip(COMPS, parts)]      # component passed in vs stored
                else:
                    parts = [TS(getattr(rec, c).amplitude, dt) for c in COMPS]
                    pairs = [(getattr(rec, c), p) for c, p in zip(COMPS, parts)]
                    cp = R(*parts, degrees_from_north=rec.degrees_from_north, meta=rec.meta)
                    pairs += [(p, getattr(cp, c)) for c, p in zip(COMPS, parts)]
                for a, b in pairs:
                    independent(a, b, f"{step} via {op['how']}")
                for c in COMPS:
                    require(same_bits(getattr(cp, c).amplitude, getattr(rec, c).amplitude), f"{step}: copy of {c} has different samples")
                require(_ang_eq(cp.degrees_from_north, rec.degrees_from_north), f"{step}: copy has orientation {cp.degrees_from_north}, source {rec.degrees_from_north}")
                victim, other = (cp, rec) if op["edit"] == "copy" else (rec, cp)
                keep = [getattr(other, c).amplitude.copy() for c in COMPS]
                for c in COMPS:
                    getattr(victim, c).amplitude[:] = getattr(victim, c).amplitude * -2.5 + 1.0
                for c, kp in zip(COMPS, keep):
                    if not same_bits(getattr(other, c).amplitude, kp):
                        raise Violation(f"{step} via {op['how']}: editing the {op['edit']} in place changed component {c} of the other object")
                for c, kp in zip(COMPS, keep):      # undo: continue with pristine data
                    getattr(victim, c).amplitude[:] = kp
                rec = cp if op["continue_with"] == "copy" else rec
                labels.append("copy-" + op["how"])
                if modifying >= 2:
                    nontrivial = True
            elif name in ("split", "tsplit"):
                kint = max(2, int(op["frac"] * (n - 1)))
                if kint > n - 1:
                    continue
                wl = kint * dt if abs(round(kint * dt / dt) - kint) < 0.5 else kint * dt
                src_before = {c: getattr(rec, c).amplitude.copy() for c in COMPS}
                if name == "split":
                    wins = sut(rec.split, wl * (1 + 1e-9), allow=(ValueError,), what="SeismicRecording3C.split")
                    groups = [[(getattr(rec, c), getattr(w, c)) for c in COMPS] for w in wins]
                else:
                    c0 = COMPS[op["which"] % 3]
                    tw = sut(getattr(rec, c0).split, wl * (1 + 1e-9), allow=(ValueError,), what="TimeSeries.split")
                    groups = [[(getattr(rec, c0), w)] for w in tw]
                require(len(groups) >= 1, f"{step}: no windows returned")
                for gi, grp in enumerate(groups):
                    for a, b in grp:
                        independent(a, b, f"{step}: window {gi}")
                flat = [b for grp in groups for (_, b) in grp]
                for i in range(len(flat)):
                    for j in range(i + 1, len(flat)):
                        if np.shares_memory(flat[i].amplitude, flat[j].amplitude):
                            raise Violation(f"{step}: two windows share sample storage")
                gsel = groups[op["which"] % len(groups)]
                if op["edit"] == "window":
                    others = [b.amplitude.copy() for grp in groups if grp is not gsel for (_, b) in grp]
                    for _, b in gsel:
                        b.amplitude[:] = 777.0
                    for c in COMPS:
                        if not same_bits(getattr(rec, c).amplitude, src_before[c]):
                            raise Violation(f"{step}: editing a window in place changed component {c} of the source recording")
                    now = [b.amplitude for grp in groups if grp is not gsel for (_, b) in grp]
                    for o_, n_ in zip(others, now):
                        require(same_bits(o_, n_), f"{step}: editing one window changed another window")
                else:
                    wkeep = [b.amplitude.copy() for grp in groups for (_, b) in grp]
                    for c in COMPS:
                        getattr(rec, c).amplitude[:] = getattr(rec, c).amplitude + 5.0
                    for kp, b in zip(wkeep, flat):
                        if not same_bits(kp, b.amplitude):
                            raise Violation(f"{step}: editing the source in place changed a window obtained by splitting")
                    for c in COMPS:
                        getattr(rec, c).amplitude[:] = src_before[c]
                labels.append(name)
                if modifying >= 2:
                    nontrivial = True
            agree(step)
            require(_ang_eq(rec.degrees_from_north, orient), f"{step}: orientation is {rec.degrees_from_north}, expected {orient}")
    finally:
        shutil.rmtree(tmp, ignore_errors=True)
    if case.get("meta") is not None and any(ord(ch) > 127 for ch in str(case["meta"])):
        labels.append("non-ascii-metadata")
    if case.get("big"):
        labels.append("big-2^%d-samples" % int(math.log2(case["rec"]["n"])))
    if case.get("foreign"):
        foreign_check(ID, dict(case, foreign=False))
        labels.append("also-in-ascii-locale-interpreter")
    return dict(labels=sorted(set(labels)), nontrivial=nontrivial)
