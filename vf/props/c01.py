"""C01 - HVSR curves equal the defined spectral ratio for every combination method."""
import math

import numpy as np
from hypothesis import strategies as st

from .. import gen, oracle
from ..core import Violation, Refusal, require, sut, close, same_bits, rel_err

ID = "C01"
RULE = ("Cases: 1-3 three-component windows (16-600 samples, one time step from the realistic set, amplitude scale "
        "10^-9..10^9, drawn signal recipes), one of the 13 method names (9 frequency-domain names incl. aliases, single "
        "azimuth, RotDpp, azimuthal, diffuse field), one of 7 smoothing operators with a bandwidth within a decade of the "
        "default, Tukey width in [0,1], 1-40 centre frequencies in the band where every kernel window is non-empty, plus "
        "the proportional family ns=A*s, ew=B*s, vt=C*s. Non-trivial = no component is constant and the curve was "
        "compared with the reference at >= 1 centre frequency; distinct by SHA-1 of the case.")
ASSUMPTIONS = [
    "numpy.fft.rfft, scipy.signal.windows.tukey and numpy float64 arithmetic are trusted (shared with the code under test)",
    "centre frequencies are drawn where every operator has >= 1 spectral sample in its window (an empty window gives 0/0, which the result classes refuse)",
    "reference comparison rtol 1e-9 (observed agreement 1e-14); power-of-two rescalings compared bit for bit",
]
BUDGET = {"quick": 960, "thorough": 24000}
SHARDS = {"quick": 8, "thorough": 16}
TECHNIQUE = "property-based testing: independent numpy reference pipeline + metamorphic scaling + closed forms"


@st.composite
def strategy(draw):
    dt = draw(gen.choice(gen.DTS))
    spec = draw(gen.processing_spec(n_max=600, policy="frequency_domain_resampling",
                                    fft_choices=(None, None, 2 ** 15, 2 ** 16, 256, 64, "record-length")))
    mixed = spec["method"] != "diffuse_field" and draw(gen.chance(4))
    nrec = draw(st.sampled_from([4, 5])) if mixed else draw(st.sampled_from([1, 1, 2, 3, 2]))
    # rarely: a window longer than the 2^15 minimum FFT length placed after shorter ones (FFT length must follow the longest)
    long_window = (not mixed) and spec["method"] != "diffuse_field" and spec["fft_n"] in (None, 2 ** 15) and nrec >= 2 and draw(gen.chance(10))
    equal_len = draw(st.booleans())
    n0 = draw(st.integers(16, 600))
    exp = draw(st.integers(-9, 9))
    dt2 = draw(gen.choice(gen.DTS))
    pattern = draw(st.sampled_from([[0, 1, 1, 0, 1], [0, 1, 0, 0, 1], [1, 0, 0, 1, 1], [0, 0, 1, 0, 1]])) if mixed else [0] * 5
    recs = []
    for i in range(nrec):
        n = n0 if equal_len else draw(st.integers(16, 600))
        recs.append(draw(gen.recording_recipe(n=n, dt=[dt, dt2][pattern[i]], scale_exp=(exp, exp), dfn_range=(0, 0))))
    if spec["method"] == "diffuse_field":
        for r in recs:
            r["n"] = n0
        spec["policy"] = "keeping_majority_time_step"
    if long_window:
        recs[-1]["n"] = 2 ** 15 + draw(st.integers(1, 3000))
        spec["_nfft"] = 2 ** 16
    if spec["fft_n"] == "record-length":
        for r in recs:                      # a coarse FFT grid needs room for the kernels: windows of >= 128 samples
            r["n"] = max(r["n"], 128)
        spec["_nfft"] = max(r["n"] for r in recs)
    if isinstance(spec["fft_n"], int) and spec["fft_n"] in (64, 256) and draw(gen.chance(6)):
        # coincidence: the longest window has exactly the requested FFT length (then honoured as it is, like n=None)
        recs[-1]["n"] = spec["fft_n"]
        for r in recs:
            r["n"] = min(r["n"], spec["fft_n"]) if spec["method"] != "diffuse_field" else spec["fft_n"]
    if isinstance(spec["fft_n"], int) and max(r["n"] for r in recs) == spec["fft_n"]:
        spec["_nfft"] = spec["fft_n"]
    nfft = spec["_nfft"]
    dts_used = [r["dt"] for r in recs]
    df_max, fnyq_min = 1.0 / (nfft * min(dts_used)), 0.5 / max(dts_used)
    fcs = draw(gen.center_frequencies(spec["op"], spec["bw"], df_max, fnyq_min))
    if fcs is None:
        spec["op"], spec["bw"] = "konno_and_ohmachi", 10.0
        fcs = draw(gen.center_frequencies(spec["op"], spec["bw"], df_max, fnyq_min))
    if fcs is None:
        spec["fft_n"], spec["_nfft"] = None, 2 ** 15
        fcs = draw(gen.center_frequencies(spec["op"], spec["bw"], 1.0 / (2 ** 15 * min(dts_used)), fnyq_min))
    spec["fcs"] = fcs
    k = draw(st.sampled_from([-8, -3, -1, 1, 2, 5, 8]))
    prop = dict(A=draw(st.one_of(gen.signed(0.01, 5), st.sampled_from([1.0, -1.0, 2.0, 0.0]))),
                B=draw(st.one_of(gen.signed(0.01, 5), st.sampled_from([1.0, 3.0, -0.5]))),
                C=draw(gen.signed(0.1, 5)),
                base=draw(gen.signal_recipe(kinds=("noise", "sines", "chirp", "spikes"), scale_exp=(exp, exp))))
    width2 = draw(st.one_of(gen.floats(0.001, 1), st.sampled_from([0.0, 0.5, 1.0])))
    return dict(dt=dt, records=recs, spec=spec, k=k, prop=prop, width2=width2)


BIG = {"quick": 16, "thorough": 160}


@st.composite
def strategy_big(draw):
    """Long windows: 1-2 windows of 2^14 .. 300 000 samples (50 min at 100 Hz), FFT length None / 2^15 / 2^16 / 2^18 /
    record length, up to 6 centre frequencies."""
    case = draw(strategy())
    spec = case["spec"]
    recs = case["records"][:draw(st.sampled_from([1, 1, 2]))]
    n = draw(gen.big_size(2 ** 14, 300_000))
    dt0 = recs[0]["dt"]
    for r in recs:
        r["n"] = n
        r["dt"] = dt0
    if spec["method"] == "diffuse_field":
        spec["policy"] = "keeping_majority_time_step"
    fft = draw(st.sampled_from([None, None, 2 ** 15, 2 ** 16, 2 ** 18, "record-length"]))
    spec["fft_n"] = fft
    spec["_nfft"] = n if (fft == "record-length" or fft == n) else max(oracle.nextpow2(n), fft or 0)    # a requested n equal to the window length is honoured as it is
    fcs = draw(gen.center_frequencies(spec["op"], spec["bw"], 1.0 / (spec["_nfft"] * dt0), 0.5 / dt0, max_size=6))
    if fcs is None:
        spec["op"], spec["bw"] = "konno_and_ohmachi", 40.0
        fcs = draw(gen.center_frequencies(spec["op"], spec["bw"], 1.0 / (spec["_nfft"] * dt0), 0.5 / dt0, max_size=6))
    spec["fcs"] = fcs
    case.update(records=recs, spec=spec, dt=dt0, big=True)
    return case


def warmup():
    from . import c02
    c02.warmup()


def _curves(result, method):
    """Rows of a result as a list of (azimuth_or_None, 2-D array)."""
    import hvsrpy
    if isinstance(result, hvsrpy.HvsrAzimuthal):
        return [(az, np.asarray(h.amplitude)) for az, h in zip(result.azimuths, result.hvsrs)]
    if isinstance(result, hvsrpy.HvsrDiffuseField):
        return [(None, np.atleast_2d(np.asarray(result.amplitude)))]
    return [(None, np.asarray(result.amplitude))]


def _process(hv, arrays, dt, spec, allow=()):
    TS, R = hv.TimeSeries, hv.SeismicRecording3C
    dts = dt if isinstance(dt, list) else [dt] * len(arrays)
    recs = [R(TS(ns, d), TS(ew, d), TS(vt, d)) for (ns, ew, vt), d in zip(arrays, dts)]
    settings = gen.make_settings(hv, spec)
    res = sut(hv.process, recs, settings, allow=allow, what=f"process[{spec['method']}]")
    return res, settings


def _reference(arrays, dt, spec, nfft):
    """List (per azimuth or [None]) of (rows x nfc) reference arrays + ambiguous columns."""
    m = spec["method"]
    fcs = np.array(spec["fcs"], dtype=float)
    amb_all = np.zeros(len(fcs), dtype=bool)
    dts = dt if isinstance(dt, list) else [dt] * len(arrays)
    if m == "diffuse_field":
        dt = dts[0]
        cur, amb = oracle.ref_diffuse_field([a[0] for a in arrays], [a[1] for a in arrays], [a[2] for a in arrays],
                                            dt, spec["op"], spec["bw"], fcs, spec["width"], nfft)
        return [(None, cur[None, :])], amb
    if m == "azimuthal":
        out = []
        for az in spec["azimuths"]:
            rows = []
            for (ns, ew, vt), dt in zip(arrays, dts):
                cur, amb = oracle.ref_hvsr(ns, ew, vt, dt, "single_azimuth", spec["op"], spec["bw"], fcs, spec["width"], nfft, azimuth=az)
                amb_all |= amb
                rows.append(cur)
            out.append((az, np.array(rows)))
        return out, amb_all
    rows = []
    for (ns, ew, vt), dt in zip(arrays, dts):
        cur, amb = oracle.ref_hvsr(ns, ew, vt, dt, m, spec["op"], spec["bw"], fcs, spec["width"], nfft,
                                   azimuth=spec.get("azimuth"), azimuths=spec.get("azimuths"), percentile=spec.get("percentile"))
        amb_all |= amb
        rows.append(cur)
    return [(None, np.array(rows))], amb_all


def check_case(case):
    import hvsrpy as hv
    spec = case["spec"]
    dt = [r["dt"] for r in case["records"]]
    m = spec["method"]
    fcs = np.array(spec["fcs"], dtype=float)
    arrays = [gen.expand_recording_arrays(r) for r in case["records"]]
    labels = [f"{gen.family(m)}|{spec['op']}", m, f"fft={spec['fft_n']}"]
    if max(r["n"] for r in case["records"]) > 2 ** 15:
        labels.append("window-longer-than-2^15")
    if case.get("big"):
        labels.append("big-2^%d-samples" % int(math.log2(max(r["n"] for r in case["records"]))))
    if len(set(dt)) > 1:
        labels.append("mixed-dt")
    # Savitzky-Golay has negative weights: on a coarse (un-padded) FFT grid a smoothed spectrum can come out <= 0,
    # which the result classes refuse.  The reference tells whether this case is such a one.
    if spec["op"] == "savitzky_and_golay":
        pre, _ = _reference(arrays, dt, spec, spec["_nfft"])
        if any((not np.all(np.isfinite(r))) or np.any(r <= 0) for _, r in pre):
            try:
                _process(hv, arrays, dt, spec, allow=(ValueError,))
            except Refusal:
                pass
            return dict(labels=labels + ["sg-nonpositive-refusal"], nontrivial=False)
    try:
        res, settings = _process(hv, arrays, dt, spec, allow=(ValueError,))
    except Refusal as r0:
        # legitimate only where the ratio itself is undefined (0/0: an exactly periodic window without taper and padding)
        pre, _ = _reference(arrays, dt, spec, spec["_nfft"])
        if all(np.all(np.isfinite(r)) for _, r in pre):
            raise Violation(f"process[{m}] refused the request ({r0.exc}) although the spectral ratio is finite at every requested centre frequency")
        return dict(labels=labels + ["ratio-undefined-refused"], nontrivial=False)

    # frequency vector = requested centres, exactly; FFT length pads, never truncates
    require(same_bits(res.frequency, fcs), f"result.frequency differs from the requested centre frequencies")
    nfft = settings.fft_settings["n"]
    nmax = max(len(a[0]) for a in arrays)
    require(nfft >= nmax, f"FFT length {nfft} is below the record length {nmax} (truncation)")
    require(nfft == spec["_nfft"], f"FFT length after the call is {nfft}, expected max(nextpow2, requested) = {spec['_nfft']}")

    # (a) reference model
    ref, amb = _reference(arrays, dt, spec, nfft)
    got = _curves(res, m)
    require(len(got) == len(ref), f"{len(got)} azimuth groups returned, expected {len(ref)}")
    keep = ~amb
    compared = 0
    for (az_g, g), (az_r, r) in zip(got, ref):
        if az_r is not None:
            require(float(az_g) == float(az_r), f"azimuth {az_g} returned where {az_r} was requested")
        require(g.shape == r.shape, f"{m}: result has shape {g.shape}, expected one curve per window {r.shape}")
        finite = np.isfinite(r).all(axis=0)
        sel = keep & finite
        compared += int(sel.sum())
        if not close(g[:, sel], r[:, sel], rtol=1e-9, atol=0):
            i, j = np.unravel_index(np.argmax(np.abs(g[:, sel] / r[:, sel] - 1)), g[:, sel].shape)
            jj = int(np.flatnonzero(sel)[j])
            raise Violation(f"{m}/{spec['op']}(bw={spec['bw']:.4g}), tukey {spec['width']:.3g}, azimuth {az_r}: window {i} at fc={fcs[jj]:.6g} Hz "
                            f"is {g[i, jj]!r}, reference spectral ratio is {r[i, jj]!r}", got=g[i, jj], expected=r[i, jj])
        # (a smoothed vertical spectrum that is exactly zero - an exactly periodic window without padding - gives inf)
        require(np.all(g[:, finite] >= 0) and np.all(np.isfinite(g[:, finite])), f"{m}: non-finite or negative amplitudes returned")
        if not finite.all():
            labels.append("vertical-spectrum-exactly-zero")

    # (b) metamorphic: power-of-two rescaling (exact in binary)
    s = 2.0 ** case["k"]
    base = [g for _, g in got]

    sg = spec["op"] == "savitzky_and_golay"

    def rows_of(arrs):
        r, _ = _process(hv, arrs, dt, spec)
        return [g for _, g in _curves(r, m)]
    allx = rows_of([(a * s, b * s, c * s) for a, b, c in arrays])
    for g0, g1 in zip(base, allx):
        require(same_bits(g0, g1), f"{m}: curve changes when all three components are multiplied by 2^{case['k']} "
                f"(max rel diff {rel_err(g0, g1):.3g})")
    hx = rows_of([(a * s, b * s, c) for a, b, c in arrays])
    for g0, g1 in zip(base, hx):
        require(close(g1, g0 * s, rtol=1e-13), f"{m}: curve does not scale linearly with the horizontals (x2^{case['k']}): rel err {rel_err(g1, g0 * s):.3g}")
    vx = rows_of([(a, b, c * s) for a, b, c in arrays])
    for g0, g1 in zip(base, vx):
        require(close(g1, g0 / s, rtol=1e-13), f"{m}: curve does not scale inversely with the vertical (x2^{case['k']}): rel err {rel_err(g1, g0 / s):.3g}")

    # (c) closed form on proportional components
    P = case["prop"]
    n = max(len(a[0]) for a in arrays)      # same FFT length as the main call also for fft_settings n=None
    sig = gen.expand_signal(P["base"], n)
    if np.ptp(sig) > 0:
        parr = [(P["A"] * sig, P["B"] * sig, P["C"] * sig)] * (2 if m == "diffuse_field" else 1)
        try:
            pres = [g for _, g in _curves(_process(hv, parr, dt[0], spec, allow=(ValueError,) if sg else ())[0], m)]
        except Refusal:
            pres = []
        if m == "azimuthal":
            expect = [oracle.closed_form("single_azimuth", P["A"], P["B"], P["C"], azimuth=az) for az in spec["azimuths"]]
        else:
            expect = [oracle.closed_form(m, P["A"], P["B"], P["C"], azimuth=spec.get("azimuth"),
                                         azimuths=spec.get("azimuths"), percentile=spec.get("percentile"))]
        href = math.sqrt(P["A"] ** 2 + P["B"] ** 2) / abs(P["C"])
        # FFT rounding noise is ~eps x the spectral peak: where the smoothed spectrum lies d decades below its
        # peak the three separately transformed components are proportional only to ~eps x 10^d
        fgrid = np.fft.rfftfreq(nfft, dt[0])
        S = oracle.amp_spectrum(sig, spec["width"], nfft)
        Ssm, _ = oracle.ref_smooth(spec["op"], fgrid, S, fcs, spec["bw"])
        dyn = float(S.max()) / np.maximum(np.abs(Ssm[0]), 1e-300)
        # Savitzky-Golay has negative weights: where the smoothed spectrum of s itself is <= 0 the order of the azimuths
        # reverses (maximum / percentile of negative numbers) and the closed form does not apply
        keep_cf = keep & (Ssm[0] > 0)
        for g, e in zip(pres, expect):
            if not close(g[:, keep_cf], e, rtol=1e-9, atol=(1e-12 + 1e-13 * dyn[keep_cf]) * href):
                raise Violation(f"{m}: proportional components A={P['A']}, B={P['B']}, C={P['C']} give {g[0, keep_cf][:3].tolist()}..., "
                                f"closed form combine(A,B)/|C| = {e!r}", expected=e)
        labels.append("closed-form")

    # (d) same windows, second configuration (other taper width / azimuth) in the same process:
    #     results must follow the configuration of *this* call (no state carried over between calls)
    spec2 = dict(spec, width=case["width2"])
    if "azimuth" in spec2:
        spec2["azimuth"] = spec2["azimuth"] + 17.0
    try:
        res2, settings2 = _process(hv, arrays, dt, spec2, allow=(ValueError,))
        ref2, amb2 = _reference(arrays, dt, spec2, settings2.fft_settings["n"])
        pairs2 = list(zip(_curves(res2, m), ref2))
    except Refusal as r2:
        pairs2, amb2 = [], None
        if not sg:
            # legitimate only where the ratio itself is undefined (0/0: an exactly periodic window without taper and padding)
            ref2, _ = _reference(arrays, dt, spec2, nfft)
            if all(np.all(np.isfinite(r)) for _, r in ref2):
                raise Violation(f"{m}: second call on the same windows with tukey width {case['width2']:.3g} was refused ({r2.exc}) although the spectral ratio is finite everywhere")
            labels.append("second-call-ratio-undefined-refused")
    for (_, g), (_, r) in pairs2:
        sel = ~amb2 & np.isfinite(r).all(axis=0)
        if not close(g[:, sel], r[:, sel], rtol=1e-9, atol=0):
            raise Violation(f"{m}: second call on the same windows with tukey width {case['width2']:.3g} (first call used {spec['width']:.3g}) "
                            f"does not equal the reference for its own configuration: rel err {rel_err(g[:, sel], r[:, sel]):.3g}")

    nonconst = all(np.ptp(c) > 0 for a in arrays for c in a)
    return dict(labels=labels, nontrivial=bool(nonconst and compared > 0))
