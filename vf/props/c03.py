"""C03 - One curve per window, in input order, independent of the other windows."""
import math
import os

import numpy as np
from hypothesis import strategies as st

from .. import gen, oracle
from ..core import Violation, Refusal, require, sut, same_bits, rel_err

ID = "C03"
RULE = ("Cases: lists of 1-7 recordings with individual lengths (16-400 samples) and time steps drawn from 1-3 distinct "
        "values in an arbitrary arrangement, a drawn permutation and sub-list, any processing method, each of the three "
        "dissimilar-time-step policies, explicit FFT length, centre frequencies below every Nyquist or (sub-case) above the "
        "Nyquist of some records. Non-trivial = (>= 3 records with >= 2 distinct time steps) or a centre frequency above "
        "some record's Nyquist; distinct by SHA-1 of the case."
        ' Scale pass: 5-100 windows with user FFT lengths 2^17-2^20 (raw spectra of a time-step group up to 2^27 bytes in the quick tier, 2^28.7 in the thorough tier).')
ASSUMPTIONS = [
    "FFT length fixed explicitly (fft_settings={'n': N}, N >= nextpow2 of the longest record), fresh settings object per call",
    "ties of the majority policy: any time step of maximal multiplicity is accepted",
    "centre frequencies strictly above (by >= 1e-6 relative) or at/below a Nyquist frequency; the knife edge is not generated",
]
BUDGET = {"quick": 800, "thorough": 20000}
SHARDS = {"quick": 8, "thorough": 16}
TECHNIQUE = "property-based differential testing: joint vs. alone vs. permuted vs. sub-list, bit-exact; policy model"


@st.composite
def strategy(draw):
    nrec = draw(st.sampled_from([1, 2, 3, 4, 4, 5, 5, 6, 7, 4, 5, 6, 24, 40]))      # rarely: long lists
    ndt = draw(st.sampled_from([1, 2, 2, 3, 3]))
    dts = draw(st.lists(st.sampled_from(gen.DTS), min_size=ndt, max_size=ndt, unique=True))
    if ndt >= 2 and draw(gen.chance(5)):
        # nearly equal time steps (clock drift, header rounding): still distinct, must not be merged
        dts[1] = dts[0] * (1 + draw(st.sampled_from([1e-6, 1e-4, -1e-5, 2.2e-8])))
    pattern = [draw(st.integers(0, ndt - 1)) for _ in range(nrec)]
    if ndt >= 2 and nrec >= 4 and draw(st.booleans()):
        # arrangements whose regrouping permutation is not its own inverse (a,b,b,a / a,b,a,a ...)
        pattern[:4] = draw(st.sampled_from([[0, 1, 1, 0], [0, 1, 0, 0], [1, 0, 0, 1], [0, 1, 1, 1][::-1], [0, 0, 1, 0][::-1]]))
    # amplitudes from 1e-10 (ground velocity in m/s) to 1e6 (counts)
    exp = draw(st.one_of(st.integers(-10, 6), st.sampled_from([-10, -9])))
    equal_len = draw(st.booleans())
    n_common = draw(st.integers(16, 400))
    recs = []
    for i in range(nrec):
        n = n_common if equal_len else draw(st.integers(16, 400))
        recs.append(draw(gen.recording_recipe(n=n, dt=dts[pattern[i]], scale_exp=(exp, exp), dfn_range=(0, 0),
                                              kinds=("noise", "sines", "chirp", "spikes", "raw"))))
    # choose the code path first (5 paths), then the name, so that every path gets a fair share
    path = draw(gen.choice(["fd", "single_azimuth", "rotdpp", "azimuthal", "fd", "single_azimuth", "azimuthal", "diffuse_field"]))
    methods = gen.FD_METHODS if path == "fd" else [path]
    policy = draw(gen.choice(["frequency_domain_resampling", "frequency_domain_resampling", "keeping_smallest_time_step",
                              "keeping_majority_time_step"]))
    spec = draw(gen.processing_spec(n_max=400, methods=methods, policy=policy, fft_choices=(2 ** 15, 2 ** 15, 2 ** 16)))
    used = sorted(set(r["dt"] for r in recs))
    nfft = spec["_nfft"]
    df_max = 1.0 / (nfft * min(used))
    fnyq_min = 0.5 / max(used)
    fcs = draw(gen.center_frequencies(spec["op"], spec["bw"], df_max, fnyq_min, max_size=12))
    if fcs is None:
        spec["op"], spec["bw"] = "konno_and_ohmachi", 40.0
        fcs = draw(gen.center_frequencies(spec["op"], spec["bw"], df_max, fnyq_min, max_size=12))
    above = None
    if len(used) > 1 and draw(gen.chance(6)):
        # one centre frequency between two Nyquist frequencies (or above all of them)
        nyqs = sorted(0.5 / d for d in used)
        j = draw(st.integers(0, len(nyqs) - 1))
        lo = nyqs[j] * (1 + 1e-6)
        hi = nyqs[j + 1] * (1 - 1e-6) if j + 1 < len(nyqs) else nyqs[j] * 1.5
        if lo < hi:
            above = draw(gen.floats(lo, hi))
            pos = draw(st.integers(0, len(fcs)))
            fcs = fcs[:pos] + [above] + fcs[pos:]
    elif len(used) == 1 and draw(gen.chance(8)):
        above = 0.5 / used[0] * draw(gen.floats(1 + 1e-6, 1.3))
        pos = draw(st.integers(0, len(fcs)))
        fcs = fcs[:pos] + [above] + fcs[pos:]
    spec["fcs"] = fcs
    perm = draw(st.permutations(list(range(nrec))))
    sub = [i for i in range(nrec) if draw(st.booleans())] or [draw(st.integers(0, nrec - 1))]
    if nrec >= 3 and draw(gen.chance(10)):
        # a dead window (all samples zero) among ordinary ones: its ratio is 0/0, so the call is refused as a whole -
        # what must not happen is a result with fewer curves than windows
        j = draw(st.integers(0, nrec - 1))
        for c in ("ns", "ew", "vt"):
            recs[j][c] = dict(kind="raw", scale_exp=0, values=[0.0], trend=0.0)
    return dict(records=recs, spec=spec, perm=list(perm), sub=sub, above=above)


BIG = {"quick": 4, "thorough": 24}


@st.composite
def strategy_big(draw):
    """Many windows x long FFTs: the raw spectra of one time-step group occupy 2^24 .. 2^27 bytes in the quick tier and up
    to 2^28.7 bytes (430 MB; e.g. 40 windows with n = 2^20) in the thorough tier, where blocked implementations change path."""
    case = draw(strategy())
    spec = case["spec"]
    if draw(st.booleans()):
        spec["method"] = draw(gen.choice(list(gen.FD_METHODS)))       # the main (frequency-domain combination) path in half of the scale cases
    top = 27.0 if os.environ.get("VF_TIER", "quick") == "quick" else 28.7
    b = draw(st.sampled_from([24.0, 25.0, 26.0, 27.0, 27.6, 28.1, 28.3, 28.5, 28.7, 28.7]))
    b = min(b, top)
    e = draw(st.sampled_from([17, 18, 19, 20, 20]))
    count = int(max(5, min(96, round(2.0 ** b / (8.0 * 2 ** e))))) + draw(st.sampled_from([0, 1, 3]))
    proto = case["records"]
    dts = sorted(set(r["dt"] for r in proto))
    recs = []
    for i in range(count):
        r = {k: (dict(v) if isinstance(v, dict) else v) for k, v in proto[i % len(proto)].items()}
        for c in ("ns", "ew", "vt"):
            if "seed" in r[c]:
                r[c]["seed"] = (r[c]["seed"] + 7919 * i) % 2 ** 32
            r[c]["scale_exp"] = r[c].get("scale_exp", 0)
        r["dt"] = dts[0] if (len(dts) == 1 or i % 11) else dts[-1]          # one large group, a few windows of another time step
        recs.append(r)
    spec["fft_n"], spec["_nfft"] = 2 ** e, 2 ** e
    used = sorted(set(r["dt"] for r in recs))
    fcs = draw(gen.center_frequencies(spec["op"], spec["bw"], 1.0 / (2 ** e * min(used)), 0.5 / max(used), max_size=4))
    if fcs is None:
        spec["op"], spec["bw"] = "konno_and_ohmachi", 40.0
        fcs = draw(gen.center_frequencies(spec["op"], spec["bw"], 1.0 / (2 ** e * min(used)), 0.5 / max(used), max_size=4))
    spec["fcs"] = fcs
    case.update(records=recs, spec=spec, perm=list(range(count)), sub=list(range(0, count, 2)), above=None, big=True)
    return case


def warmup():
    from . import c02
    c02.warmup()


def _rows(result):
    import hvsrpy
    if isinstance(result, hvsrpy.HvsrAzimuthal):
        return [np.asarray(h.amplitude) for h in result.hvsrs]
    if isinstance(result, hvsrpy.HvsrDiffuseField):
        return [np.atleast_2d(np.asarray(result.amplitude))]
    return [np.asarray(result.amplitude)]


def _kept(dts, policy):
    """Admissible sets of kept indices (list of lists) under the policy."""
    idx = list(range(len(dts)))
    if policy == "frequency_domain_resampling":
        return [idx]
    if policy == "keeping_smallest_time_step":
        m = min(dts)
        return [[i for i in idx if dts[i] == m]]
    counts = {}
    for d in dts:
        counts[d] = counts.get(d, 0) + 1
    top = max(counts.values())
    return [[i for i in idx if dts[i] == d] for d in counts if counts[d] == top]


def check_case(case):
    import hvsrpy as hv
    spec = case["spec"]
    m, policy = spec["method"], spec["policy"]
    fcs = np.array(spec["fcs"], dtype=float)
    recipes = case["records"]
    arrays = [gen.expand_recording_arrays(r) for r in recipes]
    dts = [r["dt"] for r in recipes]
    labels = [policy, gen.family(m), f"ndt={len(set(dts))}"]
    if case.get("big"):
        labels.append("big-2^%d-bytes-of-raw-spectra" % int(math.log2(len(dts) * 8.0 * spec["_nfft"])))
    TS, R = hv.TimeSeries, hv.SeismicRecording3C

    def fresh(i):
        ns, ew, vt = arrays[i]
        return R(TS(ns, dts[i]), TS(ew, dts[i]), TS(vt, dts[i]))

    def run(indices):
        recs = [fresh(i) for i in indices]
        return sut(hv.process, recs, gen.make_settings(hv, spec), allow=(ValueError,), what=f"process[{m}]")

    # grouping permutation of the implementation-independent kind: is it an involution?
    first = {}
    for d in dts:
        first.setdefault(d, len(first))
    order = sorted(range(len(dts)), key=lambda i: (first[dts[i]], i))
    sigma = [order.index(i) for i in range(len(dts))]
    if any(sigma[sigma[i]] != i for i in range(len(dts))):
        labels.append("non-involutive")

    alone_cache = {}

    def alone(i):
        if i not in alone_cache:
            try:
                alone_cache[i] = _rows(run([i]))
            except Refusal as r:
                alone_cache[i] = r
        return alone_cache[i]

    nontrivial = False

    def check_list(indices, what):
        nonlocal nontrivial
        sub_dts = [dts[i] for i in indices]
        options = [[indices[j] for j in opt] for opt in _kept(sub_dts, policy)]
        # expected refusal: a centre frequency above the Nyquist of a processed recording
        def refuses(opt):
            return max(fcs) > 0.5 / max(dts[i] for i in opt) * (1 + 1e-9)
        diffuse_mixed = (m == "diffuse_field" and policy == "frequency_domain_resampling" and len(set(sub_dts)) > 1)
        try:
            res = run(indices)
        except Refusal as r:
            if diffuse_mixed:
                labels.append("diffuse-mixed-dt-refused")
                return
            if any(refuses(opt) for opt in options):
                labels.append("nyquist-refused")
                nontrivial = True
                return
            # not a Nyquist refusal: consistent only if a retained recording is refused when processed alone too
            # (e.g. a Savitzky-Golay stencil that reaches past the last FFT bin gives "amplitude may not contain nan")
            for opt in options:
                for i in opt:
                    e = alone(i)
                    if isinstance(e, Refusal) and str(e.exc) == str(r.exc):
                        labels.append("refused-alone-too")
                        return
            raise Violation(f"{what}: process refused a valid request ({r.exc}); policy {policy}, dts {sub_dts}, max fc {max(fcs):.9g}")
        require(not diffuse_mixed, f"{what}: diffuse field accepted recordings with different time steps under frequency_domain_resampling")
        if all(refuses(opt) for opt in options):
            raise Violation(f"{what}: centre frequency {max(fcs):.6g} Hz above the Nyquist frequency of a processed recording "
                            f"(dts kept {sorted(set(dts[i] for i in options[0]))}) was reported instead of refused")
        require(same_bits(res.frequency, fcs), f"{what}: result.frequency differs from the requested centre frequencies")
        got = _rows(res)
        for g in got:
            # (+inf is legitimate: a vertical spectrum that is exactly zero at a bin - a short periodic test signal - gives x/0)
            require(not np.any(np.isnan(g)) and np.all(g >= 0), f"{what}: NaN or negative amplitudes")
        if m == "diffuse_field":
            # one curve from all kept windows: equals processing the kept windows alone
            ok = False
            for opt in options:
                if refuses(opt):
                    continue
                try:
                    ref = _rows(run(opt))
                except Refusal:
                    continue    # an alternative retained set (tie between time steps) that is refused alone - e.g. a dead record - was not the one used
                if same_bits(ref[0], got[0]):
                    ok = True
            require(ok, f"{what}: diffuse-field curve differs from the curve of the retained recordings processed alone")
            return
        matches = []
        for opt in options:
            if refuses(opt):
                continue
            exp = [alone(i) for i in opt]
            if any(isinstance(e, Refusal) for e in exp):
                continue
            okopt = all(g.shape[0] == len(opt) for g in got)
            if okopt:
                for a, g in enumerate(got):
                    for row, e in zip(g, exp):
                        if not same_bits(row, e[a][0]):
                            okopt = False
            matches.append(okopt)
        if not any(matches):
            g = got[0]
            opt = options[0]
            detail = f"{g.shape[0]} curves returned for {len(opt)} retained of {len(indices)} recordings"
            if g.shape[0] == len(opt):
                exp = [alone(i) for i in opt]
                bad = [j for j in range(len(opt)) if not isinstance(exp[j], Refusal) and not same_bits(g[j], exp[j][0][0])]
                if bad:
                    j = bad[0]
                    others = [k for k in range(len(opt)) if not isinstance(exp[k], Refusal) and same_bits(g[j], exp[k][0][0])]
                    detail = (f"row {j} (recording {opt[j]}, dt={dts[opt[j]]:.6g}) differs from that recording processed alone "
                              f"(rel diff {rel_err(g[j], exp[j][0][0]):.3g})" + (f"; it equals recording {opt[others[0]]} processed alone" if others else ""))
            shown = [round(d, 6) for d in sub_dts]
            raise Violation(f"{what}: {m}, {policy}, dts {shown if len(shown) <= 12 else str(shown[:12])[:-1] + ', ... %d in all]' % len(shown)}: {detail}")

    if len(set(dts)) >= 2 and len(dts) >= 3:
        nontrivial = True
    check_list(list(range(len(dts))), "joint")
    if case["perm"] != list(range(len(dts))):
        check_list(case["perm"], "permuted")
        labels.append("permuted")
    if len(case["sub"]) < len(dts):
        check_list(case["sub"], "sub-list")
        labels.append("sub-list")
    if case["above"] is not None:
        labels.append("fc-above-some-nyquist")
    return dict(labels=labels, nontrivial=nontrivial)
