"""C13 - Time-domain rejection keeps exactly the windows that satisfy the criterion."""
import math

import numpy as np
from hypothesis import strategies as st

from .. import gen, oracle
from ..core import Violation, Refusal, require, sut

ID = "C13"
RULE = ("Cases: 1-10 three-component windows of 200-3000 samples (stationary noise/sine base times an envelope with 0-2 "
        "bursts or drop-outs of drawn position, length and gain on drawn components), STA/LTA lengths with sta <= lta <= "
        "window, two pairs of limits (one nested in the other), a component subset in a drawn order, a maximum-value threshold "
        "(normalised or absolute), and optionally an attached HvsrTraditional / HvsrAzimuthal (some windows without a peak) that "
        "is passed to two successive calls. Non-trivial = the selection is neither empty nor full; distinct by SHA-1 of the case."
        " In 4 of 9 cases the three components' time steps differ by 1e-9-5e-9 s; STA lengths go down to one sample.")
ASSUMPTIONS = [
    "STA/LTA chunk lengths: the window is judged under every admissible reading (floor(sta/dt) exact and +-1 sample); only windows that are clearly inside / clearly outside under all readings (margin 1e-6) are asserted",
    "maximum-value decisions closer than 1e-9 (relative) to the threshold are not asserted",
]
BUDGET = {"quick": 2400, "thorough": 60000}
SHARDS = {"quick": 8, "thorough": 16}
TECHNIQUE = "property-based testing: independent STA/LTA reference with MUST-keep/MUST-reject sets, metamorphic relations (locality, rescaling, limit widening, conjunction), identity/order and mask coupling checks"

COMPS = ["ns", "ew", "vt"]


@st.composite
def window_recipe(draw, n):
    r = dict(seeds=[draw(gen.seeds32) for _ in range(3)], kind=draw(st.sampled_from(["noise", "noise", "sines"])),
             scale_exp=draw(st.one_of(st.integers(-6, 6), st.sampled_from([-10, -9, -10]))), events=[])
    for _ in range(draw(st.sampled_from([0, 0, 1, 1, 2]))):
        r["events"].append(dict(pos=draw(gen.floats(0, 0.95)), length=draw(gen.floats(0.02, 0.4)),
                                gain=draw(st.sampled_from([0.02, 0.1, 0.3, 3.0, 10.0, 50.0])),
                                comps=draw(st.lists(st.sampled_from(COMPS), min_size=1, max_size=3, unique=True))))
    return r


def expand_window(r, n):
    out = {}
    t = np.arange(n)
    for c, seed in zip(COMPS, r["seeds"]):
        g = np.random.Generator(np.random.PCG64(seed))
        x = g.standard_normal(n)
        if r["kind"] == "sines":
            x = 0.3 * x + np.sin(2 * np.pi * 0.05 * t + g.uniform(0, 6)) + 0.5 * np.sin(2 * np.pi * 0.13 * t)
        for e in r["events"]:
            if c in e["comps"]:
                i0 = int(e["pos"] * (n - 1))
                i1 = min(n, i0 + max(2, int(e["length"] * n)))
                x[i0:i1] *= e["gain"]
        out[c] = x * 10.0 ** r["scale_exp"]
    return out


@st.composite
def strategy(draw):
    dt = draw(gen.choice([0.01, 0.005, 0.02, 1 / 128, 0.004, 1 / 75]))
    n = draw(st.one_of(st.integers(200, 600), st.integers(200, 3000)))
    nwin = draw(st.integers(1, 10))
    wins = [draw(window_recipe(n)) for _ in range(nwin)]
    ks = draw(st.one_of(st.integers(5, max(6, n // 6)), st.integers(5, max(6, n // 6)), st.integers(1, 4)))
    dt_jitter = draw(st.sampled_from([None] * 5 + [[0.0, 1e-9, 0.0], [1e-9, 0.0, -2e-9], [0.0, 0.0, 5e-9], [-1e-9, 0.0, 0.0]]))
    if dt_jitter and ks == 1:
        ks = 2          # an STA shorter than one sample interval of a component is not a valid request
    sta = ks * dt * draw(st.sampled_from([1.0, 1.0, 1.3, 1.5]))
    ml = draw(st.one_of(st.integers(int(math.ceil(sta / dt)) + 1, int(n * 0.95)), st.integers(int(math.ceil(sta / dt)) + 1, int(n * 0.95)),
                        st.sampled_from([n, n - 1])))          # also the usual choice: the LTA spans the whole window
    lta = ml * dt * (draw(st.sampled_from([1.0, 1.0, 1.004])) if ml < n - 1 else 1.0)
    lo1, hi1 = draw(gen.floats(0.2, 0.9)), draw(gen.floats(1.1, 4.0))
    lo2, hi2 = lo1 * draw(gen.floats(0.2, 1.0)), hi1 * draw(gen.floats(1.0, 3.0))
    comps = list(draw(st.permutations(COMPS)))[:draw(gen.choice([1, 2, 3, 3]))]
    attach = draw(st.sampled_from(["none", "traditional", "azimuthal", "traditional"]))
    return dict(dt=dt, n=n, windows=wins, sta=sta, lta=lta, limits=[lo1, hi1], wide=[lo2, hi2], components=comps, attach=attach,
                peakless=[draw(gen.chance(4)) for _ in range(nwin)], k=draw(st.sampled_from([-10, -3, 4, 12])),
                max_threshold=draw(gen.floats(0.05, 1.2)), max_abs_factor=draw(gen.floats(0.3, 20.0)), normalized=draw(st.booleans()),
                # components of one recording whose time steps differ within the library's 1e-8 s similarity tolerance
                # (three files of one sensor with independently rounded headers)
                dt_jitter=dt_jitter)


BIG = {"quick": 16, "thorough": 160}


@st.composite
def strategy_big(draw):
    """Long windows: 1-3 windows of 2^15 .. 2^20 samples; STA of 1 sample .. a sixth of the window."""
    case = draw(strategy())
    n = draw(gen.big_size(2 ** 15, 2 ** 20))
    dt = case["dt"]
    nwin = draw(st.sampled_from([1, 2, 3]))
    ks = draw(st.one_of(gen.big_size(2, max(3, n // 6)), st.integers(2, 50)))
    sta = ks * dt * draw(st.sampled_from([1.0, 1.0, 1.3]))
    ml = draw(st.integers(int(math.ceil(sta / dt)) + 1, int(n * 0.95)))
    case.update(n=n, windows=case["windows"][:nwin], peakless=case["peakless"][:nwin], sta=sta, lta=ml * dt * draw(st.sampled_from([1.0, 1.004])), big=True)
    while len(case["windows"]) < nwin:
        case["windows"].append(case["windows"][0])
        case["peakless"].append(False)
    return case


def _chunks(x, ks, ml):
    n = len(x)
    if ks < 1 or ks > n or ml < 1 or ml > n:
        return None
    nchunk = n // ks
    short = np.abs(x[:ks * nchunk])
    sta = short.reshape(nchunk, ks).mean(axis=1)
    lta = short[:ml].mean()
    with np.errstate(all="ignore"):
        return sta / lta


def ref_verdict(x, dt, sta, lta, lo, hi):
    """'keep' / 'reject' / 'open' for one component under all admissible chunk lengths."""
    k0, m0 = sta / dt, lta / dt
    ks_set = {int(math.floor(k0 + 1e-9)) + d for d in (-1, 0, 1)} | {int(math.floor(k0 - 1e-9))}
    ml_set = {int(math.floor(m0 + 1e-9)) + d for d in (-1, 0, 1)} | {int(math.floor(m0 - 1e-9))}
    verdicts = set()
    for ks in ks_set:
        for ml in ml_set:
            r = _chunks(x, ks, ml)
            if r is None:
                continue            # not an admissible reading (longer than the window: the library refuses that, it did not here)
            if not np.all(np.isfinite(r)):
                verdicts.add("open")
                continue
            if np.all(r >= lo * (1 + 1e-6)) and np.all(r <= hi * (1 - 1e-6)):
                verdicts.add("keep")
            elif np.any(r < lo * (1 - 1e-6)) or np.any(r > hi * (1 + 1e-6)):
                verdicts.add("reject")
            else:
                verdicts.add("open")
    return verdicts.pop() if len(verdicts) == 1 else "open"


def check_case(case):
    import hvsrpy as hv
    dt, n = case["dt"], case["n"]
    arrays = [expand_window(w, n) for w in case["windows"]]
    nwin = len(arrays)
    comps = tuple(case["components"])
    labels = [f"ncomp={len(comps)}"] + (["big-2^%d-samples" % int(math.log2(n))] if case.get("big") else [])

    jit = dict(zip(COMPS, case.get("dt_jitter") or [0.0, 0.0, 0.0]))
    if case.get("dt_jitter"):
        labels.append("component-dt-jitter")

    def records(scale=1.0, subset=None):
        idx = range(nwin) if subset is None else subset
        return [hv.SeismicRecording3C(*(hv.TimeSeries(arrays[i][c] * scale, dt + jit[c]) for c in COMPS)) for i in idx]

    def make_hvsr():
        if case["attach"] == "none":
            return None
        f = np.geomspace(0.2, 20, 24)
        rows = []
        for i in range(nwin):
            if case["peakless"][i]:
                rows.append(np.linspace(1, 2, len(f)))
            else:
                rows.append(1 + 3 * np.exp(-0.5 * (np.log(f / (1.0 + 0.1 * i)) / 0.25) ** 2))
        A = np.array(rows)
        if case["attach"] == "traditional":
            return hv.HvsrTraditional(f, A)
        return hv.HvsrAzimuthal([hv.HvsrTraditional(f, A), hv.HvsrTraditional(f, A[:, ::-1].copy() * 0 + A)], [0.0, 90.0])

    def selection(recs, kept, what):
        ids = [id(r) for r in recs]
        pos = []
        for k in kept:
            require(id(k) in ids, f"{what}: a returned window is not one of the input objects")
            pos.append(ids.index(id(k)))
        require(pos == sorted(pos) and len(set(pos)) == len(pos), f"{what}: returned windows are not in their original order")
        S = np.zeros(len(recs), dtype=bool)
        S[pos] = True
        return S

    def masks_equal(hvsr, S, what):
        if hvsr is None:
            return
        members = hvsr.hvsrs if isinstance(hvsr, hv.HvsrAzimuthal) else [hvsr]
        for j, t in enumerate(members):
            w = np.asarray(t.valid_window_boolean_mask, dtype=bool)
            p = np.asarray(t.valid_peak_boolean_mask, dtype=bool)
            if not (np.array_equal(w, S) and np.array_equal(p, S)):
                raise Violation(f"{what}: accept masks of the attached {type(hvsr).__name__} (member {j}) are window={w.astype(int).tolist()} "
                                f"peak={p.astype(int).tolist()}, the selection is {S.astype(int).tolist()}")

    def stalta(recs, limits, components=comps, hvsr=None):
        kept = sut(hv.sta_lta_window_rejection, recs, case["sta"], case["lta"], limits[0], limits[1], components, hvsr,
                   allow=(IndexError,), what="sta_lta_window_rejection")
        return kept

    # ---- STA/LTA -------------------------------------------------------------
    recs = records()
    hvsr = make_hvsr()
    try:
        kept = stalta(recs, case["limits"], hvsr=hvsr)
    except Refusal as r:
        raise Violation(f"sta_lta_window_rejection refused sta={case['sta']:.4g}s lta={case['lta']:.4g}s on windows of {n * dt:.4g}s: {r.exc}")
    S = selection(recs, kept, "STA/LTA")
    masks_equal(hvsr, S, "STA/LTA (first call)")
    # clearly in / clearly out
    lo, hi = case["limits"]
    decided = 0
    for i in range(nwin):
        v = [ref_verdict(arrays[i][c], dt + jit[c], case["sta"], case["lta"], lo, hi) for c in comps]
        if all(x == "keep" for x in v):
            decided += 1
            if not S[i]:
                raise Violation(f"window {i}: STA/LTA ratios of components {comps} are all clearly inside [{lo:.4g}, {hi:.4g}] "
                                f"(sta={case['sta']:.5g}s, lta={case['lta']:.5g}s, dt={dt:.5g}) but the window was rejected")
        elif any(x == "reject" for x in v):
            decided += 1
            if S[i]:
                raise Violation(f"window {i}: a STA/LTA ratio of component {comps[[x == 'reject' for x in v].index(True)]} is clearly outside "
                                f"[{lo:.4g}, {hi:.4g}] (sta={case['sta']:.5g}s, lta={case['lta']:.5g}s, dt={dt:.5g}) but the window was kept")
    labels.append("undecided-windows" if decided < nwin else "all-decided")
    # locality
    for i in range(nwin):
        one = records(subset=[i])
        alone = len(stalta(one, case["limits"])) == 1
        require(alone == bool(S[i]), f"window {i}: kept={bool(S[i])} in the batch but kept={alone} when examined alone")
    # common rescaling
    rs = records(scale=2.0 ** case["k"])
    S_scaled = selection(rs, stalta(rs, case["limits"]), "STA/LTA (rescaled)")
    require(np.array_equal(S, S_scaled), f"selection changes when all amplitudes are multiplied by 2^{case['k']}: {S.astype(int).tolist()} vs {S_scaled.astype(int).tolist()}")
    # widening the limits (second call on the same attached object)
    rw = recs
    kept_w = stalta(rw, case["wide"], hvsr=hvsr)
    S_wide = selection(rw, kept_w, "STA/LTA (wide limits)")
    require(not (S & ~S_wide).any(), f"widening the limits {case['limits']} -> {case['wide']} turned window(s) {np.flatnonzero(S & ~S_wide).tolist()} from keep to reject")
    masks_equal(hvsr, S_wide, "STA/LTA (second call, widened limits, same attached object)")
    # conjunction over components
    if len(comps) > 1:
        conj = np.ones(nwin, dtype=bool)
        for c in comps:
            rc = records()
            conj &= selection(rc, stalta(rc, case["limits"], components=(c,)), f"STA/LTA ({c})")
        require(np.array_equal(conj, S), f"examining {comps} gives {S.astype(int).tolist()}, the conjunction of the single components gives {conj.astype(int).tolist()}")
        rr = records()
        S_rev = selection(rr, stalta(rr, case["limits"], components=tuple(reversed(comps))), "STA/LTA (components reversed)")
        require(np.array_equal(S_rev, S), f"examining {comps} gives {S.astype(int).tolist()}, examining {tuple(reversed(comps))} gives {S_rev.astype(int).tolist()}")

    # ---- maximum value ---------------------------------------------------------
    maxima = np.array([max(float(np.max(np.abs(arrays[i][c]))) for c in comps) for i in range(nwin)])
    if case["normalized"]:
        vals = maxima / maxima.max()
        thr = case["max_threshold"]
    else:
        vals = maxima
        thr = float(np.median(maxima)) * case["max_abs_factor"]
    recs2 = records()
    hv2 = make_hvsr()
    kept2 = sut(hv.maximum_value_window_rejection, recs2, thr, case["normalized"], comps, hv2, what="maximum_value_window_rejection")
    S2 = selection(recs2, kept2, "maximum value")
    masks_equal(hv2, S2, "maximum value")
    for i in range(nwin):
        if abs(vals[i] - thr) <= 1e-9 * max(abs(thr), abs(vals[i])):
            continue
        want = vals[i] < thr
        if bool(S2[i]) != bool(want):
            raise Violation(f"maximum-value rejection ({'normalised' if case['normalized'] else 'absolute'}, threshold {thr:.6g}, components {comps}): "
                            f"window {i} has largest |sample| {vals[i]:.6g} and was {'kept' if S2[i] else 'rejected'}")
    if hvsr is not None:
        labels.append("with-" + case["attach"])
        if any(case["peakless"]):
            labels.append("attached-has-peakless-window")
    nontrivial = bool(0 < S.sum() < nwin) or bool(0 < S2.sum() < nwin)
    return dict(labels=labels, nontrivial=nontrivial)
