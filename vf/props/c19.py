"""C19 - Command-line batch output equals the library pipeline for each file."""
import json
import os
import shutil
import subprocess
import sys
import tempfile
from concurrent.futures import ThreadPoolExecutor

import numpy as np
from hypothesis import strategies as st

from .. import gen
from ..core import Violation, require, REPO, VERIF_DIR

ID = "C19"
RULE = ("Cases: a batch of 1-5 distinct generated three-component miniSEED files (sampling rates 100/200/250/500 Hz, "
        "145-215 s, so that 70 s windows have stand-alone FFT lengths 32768 or 65536; record-length FFTs also differ) in a drawn "
        "order, --nproc in {1,2,3,5}, preprocessing settings (filter on/off, detrend) and processing settings (traditional "
        "methods, single azimuth, azimuthal, diffuse field; fft_settings null / {'n': null} / {'n': 32768}) written to "
        "settings files, --no_figure, both distribution options. The CLI runs in its own temporary directory; the oracle for "
        "each file is produced by a fresh interpreter running read -> preprocess -> process -> write on that file alone. "
        "In a third of the cases the batch mixes miniSEED, SAF, MiniShark and SAF-converted-from-MiniShark files. "
        "Non-trivial = a pool chunk holds >= 2 files whose stand-alone FFT lengths, sampling rates or formats differ; distinct by "
        "SHA-1 of the case.")
ASSUMPTIONS = [
    "the operating system decides which pool worker takes which chunk; the harness owns the batch, its order and --nproc and records the chunking they induce (chunksize = max(1, ntasks // nproc))",
    "every file holds at least two windows (with a single window the writer legitimately refuses)",
    "the per-file oracle runs in a fresh interpreter so that process-level state cannot leak between files on the oracle side",
]
BUDGET = {"quick": 48, "thorough": 640}
SHARDS = {"quick": 16, "thorough": 16}
TECHNIQUE = "property-based differential testing: CLI batch (drawn composition/order/nproc) vs. per-file library pipeline in fresh interpreters, byte-for-byte"

FS = [100, 200, 250, 500]


@st.composite
def strategy(draw):
    nfiles = draw(gen.choice([3, 2, 4, 2, 5, 3, 1, 2]))
    files = []
    for i in range(nfiles):
        files.append(dict(fs=draw(gen.choice(FS)), duration=draw(st.integers(145, 215)), seed=draw(gen.seeds32)))
    if nfiles >= 2 and draw(st.booleans()):
        files[0]["fs"], files[1]["fs"] = 500, 100       # the longer stand-alone FFT first
    if draw(gen.chance(2)):
        # mixed formats in one batch: text formats (SAF, MiniShark) next to miniSEED, incl. a SAF file converted from a
        # MiniShark recording that keeps the original header as '#' comment lines and tab-separated columns
        for fdesc in files:
            fdesc["fmt"] = draw(gen.choice(["minishark", "saf", "mseed", "saf-from-minishark", "minishark", "saf-from-minishark"]))
            if fdesc["fmt"] != "mseed":
                fdesc["fs"] = draw(st.sampled_from([100, 200]))
                fdesc["north_rot"] = draw(st.sampled_from([0, 30, 75]))
        if nfiles >= 2 and draw(st.booleans()):
            # a file that two readers accept, right after a genuine file of the other reader's format
            files[0].update(fmt="minishark", fs=draw(st.sampled_from([100, 200])), north_rot=0)
            files[1].update(fmt="saf-from-minishark", fs=draw(st.sampled_from([100, 200])), north_rot=draw(st.sampled_from([30, 75])))
    method = draw(gen.choice(["geometric_mean", "squared_average", "single_azimuth", "azimuthal", "diffuse_field", "maximum_horizontal_value"]))
    return dict(files=files, nproc=draw(gen.choice([1, 2, 1, 3, 1, 5, 2, 1])), method=method,
                fft=draw(gen.choice([None, "record-length", 32768, None])), filter=draw(gen.choice([[0.8, 15.0], [None, None], [None, None], [0.8, 15.0]])),
                detrend=draw(st.sampled_from(["linear", "constant"])), dist_mc=draw(st.sampled_from(["lognormal", "normal"])),
                dist_fn=draw(st.sampled_from(["lognormal", "normal"])), width=draw(st.sampled_from([0.1, 0.2])),
                pre_kind=draw(gen.choice(["hvsr", "psd-differentiate", "hvsr", "hvsr"])))


def _write_mseed(path, spec):
    from obspy import Stream, Trace, UTCDateTime
    n = spec["fs"] * spec["duration"] + 1
    g = np.random.Generator(np.random.PCG64(spec["seed"]))
    traces = []
    for ch in ("HHE", "HHN", "HHZ"):
        x = np.cumsum(g.standard_normal(n)).astype(np.float32) * 0.01 + g.standard_normal(n).astype(np.float32)
        traces.append(Trace(data=x.astype(np.float32), header=dict(sampling_rate=float(spec["fs"]), channel=ch, network="VF", station="S", starttime=UTCDateTime(2021, 1, 1))))
    Stream(traces).write(path, format="MSEED")


def _write_text(path, spec):
    """SAF / MiniShark / SAF-converted-from-MiniShark file with integer counts (columns V N E)."""
    n = spec["fs"] * spec["duration"] + 1
    g = np.random.Generator(np.random.PCG64(spec["seed"]))
    cols = [(np.cumsum(g.standard_normal(n)) * 3 + g.standard_normal(n) * 300).astype(np.int64) for _ in range(3)]
    fmt = spec["fmt"]
    sep = " " if fmt == "saf" else "\t"
    rows = "\n".join(f"{a}{sep}{b}{sep}{c}" for a, b, c in zip(*cols)) + "\n"
    shark = ["#MiniShark generated file", "#Original file name:\tgenerated", f"#Sample rate (sps):\t{spec['fs']}", f"#Sample number:\t{n}",
             "#Gain:\t2", "#Conversion factor:\t1000", "#Channel order:\tV\tN\tE", "#Data:"]
    saf = ["SESAME ASCII data format (saf) v. 1    (this line must not be modified)", f"SAMP_FREQ = {spec['fs']}", f"NDAT = {n:010d}",
           "START_TIME = 2021 11 22 13 31 10.000", "UNITS = Counts", f"NORTH_ROT = {spec.get('north_rot', 0)}", "CH0_ID = V", "CH1_ID = N", "CH2_ID = E"]
    if fmt == "minishark":
        text = "\n".join(shark) + "\n" + rows
    elif fmt == "saf":
        text = "\n".join(saf + ["####--------------------------------"]) + "\n" + rows
    else:
        text = "\n".join(saf + ["# converted from:"] + shark + ["####--------------------------------"]) + "\n" + rows
    with open(path, "w", newline="") as fh:
        fh.write(text)


def _settings_files(hv, case, tmp):
    if case.get("pre_kind", "hvsr") == "psd-differentiate":
        # the other public preprocessing settings class (velocity -> acceleration before the HVSR processing)
        pre = hv.PsdPreProcessingSettings(window_length_in_seconds=70.0, filter_corner_frequencies_in_hz=list(case["filter"]), detrend=case["detrend"],
                                          differentiate=True)
    else:
        pre = hv.HvsrPreProcessingSettings(window_length_in_seconds=70.0, filter_corner_frequencies_in_hz=list(case["filter"]), detrend=case["detrend"])
    fcs = np.geomspace(0.3, 20.0, 30)
    spec = dict(method=case["method"], op="konno_and_ohmachi", bw=40.0, fcs=fcs.tolist(), width=case["width"], fft_n=case["fft"],
                policy="keeping_majority_time_step" if case["method"] == "diffuse_field" else "frequency_domain_resampling",
                azimuth=35.0, azimuths=[0.0, 45.0, 90.0, 135.0], fcs_as="ndarray")
    proc = gen.make_settings(hv, spec)
    pre_file, proc_file = os.path.join(tmp, "pre.json"), os.path.join(tmp, "proc.json")
    pre.save(pre_file)
    proc.save(proc_file)
    return pre_file, proc_file


def _env():
    env = dict(os.environ)
    env["VF_REPO"] = REPO
    env["PYTHONPATH"] = VERIF_DIR + os.pathsep + env.get("PYTHONPATH", "")
    env["MPLBACKEND"] = "Agg"
    return env


def check_case(case):
    import hvsrpy as hv
    tmp = tempfile.mkdtemp(prefix="vf-c19-")
    labels = [case["method"], f"nproc={case['nproc']}", f"fft={case['fft']}", f"pre={case.get('pre_kind', 'hvsr')}"]
    try:
        data_dir, run_dir, ref_dir = (os.path.join(tmp, d) for d in ("data", "run", "ref"))
        for d in (data_dir, run_dir, ref_dir):
            os.makedirs(d)
        fnames = []
        for i, spec in enumerate(case["files"]):
            fmt = spec.get("fmt", "mseed")
            if fmt == "mseed":
                p = os.path.join(data_dir, f"rec{i}_{spec['fs']}hz.mseed")
                _write_mseed(p, spec)
            else:
                p = os.path.join(data_dir, f"rec{i}_{spec['fs']}hz.{'minishark' if fmt == 'minishark' else 'saf'}")
                _write_text(p, spec)
                labels.append("fmt=" + fmt)
            fnames.append(p)
        pre_file, proc_file = _settings_files(hv, case, tmp)
        cli_code = f"import sys; sys.path.insert(0, {REPO!r}); import hvsrpy, os; assert os.path.abspath(hvsrpy.__file__).startswith({REPO!r}); from hvsrpy.cli import cli; cli()"
        cmd = [sys.executable, "-c", cli_code, *fnames, "--preprocessing_settings_file", pre_file, "--processing_settings_file", proc_file,
               "--distribution_mc", case["dist_mc"], "--distribution_fn", case["dist_fn"], "--no_figure", "--nproc", str(case["nproc"])]

        def run_cli():
            return subprocess.run(cmd, cwd=run_dir, env=_env(), capture_output=True, text=True, timeout=900)

        def run_ref(i):
            out = os.path.join(ref_dir, f"rec{i}.csv")
            p = subprocess.run([sys.executable, "-m", "vf.cli_ref", fnames[i], pre_file, proc_file, out, case["dist_mc"], case["dist_fn"]],
                               cwd=ref_dir, env=_env(), capture_output=True, text=True, timeout=900)
            return out, p

        with ThreadPoolExecutor(max_workers=1 + len(fnames)) as ex:
            fut_cli = ex.submit(run_cli)
            fut_refs = [ex.submit(run_ref, i) for i in range(len(fnames))]
            cli = fut_cli.result()
            refs = [fu.result() for fu in fut_refs]
        for i, (out, p) in enumerate(refs):
            if p.returncode != 0 or not os.path.exists(out):
                raise RuntimeError(f"harness: library pipeline failed for file {i}: {p.stderr[-1500:]}")
        if cli.returncode != 0:
            raise Violation(f"the CLI exited with status {cli.returncode} on a batch every file of which the library pipeline processes: {cli.stderr[-600:]}")
        for i, fn in enumerate(fnames):
            stem = os.path.splitext(os.path.basename(fn))[0]
            produced = os.path.join(run_dir, stem + ".csv")
            if not os.path.exists(produced):
                raise Violation(f"the CLI wrote no {stem}.csv for input file {i} of {len(fnames)} (nproc={case['nproc']})")
            a = open(produced, "rb").read()
            b = open(refs[i][0], "rb").read()
            if a != b:
                la, lb = a.decode(errors="replace").splitlines(), b.decode(errors="replace").splitlines()
                diff = next((k for k, (x, y) in enumerate(zip(la, lb)) if x != y), min(len(la), len(lb)))
                raise Violation(f"CLI output for file {i} ({case['files'][i]['fs']} Hz, batch sampling rates {[f['fs'] for f in case['files']]}, nproc={case['nproc']}, "
                                f"{case['method']}, fft_settings {case['fft']}, filter {case['filter']}) differs from the library pipeline run on that file alone; "
                                f"first differing line {diff}: {la[diff][:90] if diff < len(la) else '<eof>'!r} vs {lb[diff][:90] if diff < len(lb) else '<eof>'!r}")
        # chunking induced by (ntasks, nproc)
        ntasks = len(fnames)
        chunksize = max(1, ntasks // case["nproc"])
        chunks = [list(range(k, min(ntasks, k + chunksize))) for k in range(0, ntasks, chunksize)]

        def standalone_n(spec):
            nwin = 70 * spec["fs"] + 1
            p2 = 2 ** 15
            while p2 <= nwin:
                p2 *= 2
            return p2
        risky = any(len(ch) >= 2 and len({(standalone_n(case["files"][j]), case["files"][j]["fs"]) for j in ch}) >= 2 for ch in chunks)
        inherit = any(len(ch) >= 2 and any(standalone_n(case["files"][ch[a]]) > standalone_n(case["files"][ch[b]]) for a in range(len(ch)) for b in range(a + 1, len(ch))) for ch in chunks)
        if inherit:
            labels.append("inherit-risk")
        if any(len({case["files"][j].get("fmt", "mseed") for j in ch}) >= 2 for ch in chunks):
            labels.append("mixed-formats-in-one-chunk")
            risky = True
        labels.append(f"chunks={[len(c) for c in chunks]}")
    finally:
        shutil.rmtree(tmp, ignore_errors=True)
    return dict(labels=labels, nontrivial=bool(risky))
