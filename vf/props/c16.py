"""C16 - SESAME reliability and clarity verdicts match the 2004 guideline."""
import contextlib
import io
import math

import numpy as np
from hypothesis import strategies as st

from .. import gen, oracle
from ..core import Violation, Refusal, require, sut

ID = "C16"
RULE = ("Cases: a geometric frequency grid (60-200 points over 0.05-40 Hz) containing a drawn target frequency (placed exactly "
        "at 0.2, 0.5, 1 or 2 Hz in a quarter of the cases), a mean curve with a dominant bump there plus 0-2 secondary bumps, a "
        "log-std curve with local structure, window length (5-600 s, log-uniform), window count (1-400, log-uniform), fn "
        "standard deviation 0.1x-10x the table threshold, a search range (none / one-sided / two-sided, sometimes excluding the "
        "dominant peak) and a verbosity level. Non-trivial = the nine verdicts are neither all pass nor all fail and at least "
        "seven of them are decidable (margin >= 1e-9, readings agree); distinct by SHA-1 of the case."
        ' Limits include inf/1e20/1e300/0/-inf/1e-300; one case in five hands the curves over in descending frequency order.')
ASSUMPTIONS = [
    "threshold table of the guideline: < 0.2 | 0.2-0.5 | 0.5-1.0 | 1.0-2.0 | > 2.0 Hz: a peak exactly at 0.2 Hz belongs to the second column; at 0.5 and 1.0 Hz (listed in two columns) both columns are accepted, and at exactly 2.0 Hz both the fourth (table) and the fifth (code) column are accepted; reliability iii at exactly 0.5 Hz accepts both limits",
    "open vs closed frequency intervals and evaluation on the range-trimmed vs full curve are both accepted (a verdict is asserted only when all readings agree)",
    "numerical comparisons closer than 1e-9 (relative) are knife edges and not asserted; search ranges whose nearest-sample snapping changes the peak are not asserted",
]
BUDGET = {"quick": 2400, "thorough": 60000}
SHARDS = {"quick": 8, "thorough": 16}
TECHNIQUE = "property-based testing against an independent implementation of the nine SESAME criteria with admissible-verdict sets at open points; monotonicity metamorphic relations; verbosity differential"

EDGES = [0.2, 0.5, 1.0, 2.0]
TABLE = [(0.25, 3.0), (0.20, 2.5), (0.15, 2.0), (0.10, 1.78), (0.05, 1.58)]


@st.composite
def strategy(draw):
    on_edge = draw(gen.chance(3))
    if on_edge:
        f0t = draw(gen.choice(EDGES))
    else:
        lo_b, hi_b = draw(gen.choice([(0.12, 0.199), (0.201, 0.499), (0.501, 0.999), (1.001, 1.999), (2.001, 8.0)]))
        f0t = lo_b + (hi_b - lo_b) * draw(gen.floats(0.0, 1.0))
    npts = draw(st.integers(60, 200))
    bumps = [dict(c=f0t, h=draw(gen.floats(0.3, 6.0)), w=draw(gen.floats(0.08, 0.5)))]
    for _ in range(draw(st.sampled_from([0, 1, 1, 2]))):
        bumps.append(dict(c=draw(gen.log_floats(0.08, 30.0)), h=draw(gen.floats(0.1, 4.0)), w=draw(gen.floats(0.05, 0.4))))
    sd = dict(level=draw(gen.log_floats(0.05, 1.5)), ripple=draw(gen.floats(0, 0.8)), k=draw(gen.floats(1, 6)), phase=draw(gen.floats(0, 6.28)))
    band = sum(f0t >= e for e in EDGES)
    fstd = f0t * TABLE[band][0] * draw(gen.log_floats(0.1, 10.0))
    kind = draw(st.sampled_from(["none", "none", "low", "high", "both", "both", "exclude-peak", "narrow", "hug"]))
    lo = hi = None
    if kind == "hug":
        # limits one to three grid samples away from the peak: whether an end sample belongs to the range decides the verdicts
        q = 800.0 ** (1.0 / npts)
        lo = f0t / q ** draw(st.sampled_from([1.2, 2.0, 3.0])) if draw(st.booleans()) else None
        hi = f0t * q ** draw(st.sampled_from([1.2, 2.0, 3.0])) if (lo is None or draw(st.booleans())) else None
    if kind == "narrow":
        # a tight range around the peak: the +- one standard deviation curves may then have no interior maximum at all
        lo = f0t * draw(gen.floats(0.8, 0.97))
        hi = f0t * draw(gen.floats(1.03, 1.25))
    if kind in ("low", "both"):
        lo = f0t * draw(gen.floats(0.1, 0.85))
    if kind in ("high", "both"):
        hi = f0t * draw(gen.floats(1.2, 9.0))
    if kind == "exclude-peak":
        if draw(st.booleans()):
            lo = f0t * draw(gen.floats(1.3, 3.0))
        else:
            hi = f0t * draw(gen.floats(0.3, 0.75))
    if draw(gen.chance(8)):
        # "no limit" written as a number: an upper limit far above / a lower limit far below the frequencies
        if draw(st.booleans()):
            hi = draw(st.sampled_from([float("inf"), 1e20, 1e300]))
        else:
            lo = draw(st.sampled_from([0.0, -float("inf"), -1e20, 1e-300]))
    if lo is not None and hi is not None and draw(gen.chance(3)):
        lo, hi = hi, lo            # limits may be given in either order (the code sorts them)
    return dict(f0t=f0t, npts=npts, bumps=bumps, sd=sd, lw=draw(gen.log_floats(5, 600)), nw=int(round(draw(gen.log_floats(1, 400)))),
                fstd=fstd, range=[lo, hi], verbose=draw(st.sampled_from([0, 1, 2])),
                lw_factor=draw(gen.floats(1.0, 20.0)), nw_add=draw(st.integers(0, 300)), fstd_factor=draw(gen.floats(0.01, 1.0)),
                # curves tabulated by period (or requested with descending centre frequencies) are stored in descending order
                descending=draw(gen.chance(5)))


BIG = {"quick": 24, "thorough": 240}


@st.composite
def strategy_big(draw):
    """Finely sampled curves: 2^9 .. 2^15 frequencies (e.g. an unsmoothed FFT grid)."""
    case = draw(strategy())
    case["npts"] = draw(gen.big_size(2 ** 9, 2 ** 15))
    case["big"] = True
    return case


def build(case):
    f = np.unique(np.concatenate([np.geomspace(0.05, 40.0, case["npts"]), [case["f0t"]]]))
    mc = np.ones_like(f)
    for b in case["bumps"]:
        mc = mc + b["h"] * np.exp(-0.5 * (np.log(f / b["c"]) / b["w"]) ** 2)
    s = case["sd"]
    sd = s["level"] * (1.0 + s["ripple"] * np.sin(np.log(f) * s["k"] + s["phase"]))
    return f, mc, np.abs(sd) + 1e-3


def _highest_peak(a):
    runs = oracle.local_max_runs(a)
    if not runs:
        return None
    best = None
    for (_i, _j, q) in runs:
        if best is None or a[q] > a[best]:
            best = q
    return best


def _cmp(x, y, margins):
    """x < y with a knife-edge margin: returns admissible set."""
    rel = abs(x - y) / max(abs(x), abs(y), 1e-300)
    if rel < 1e-9:
        return {0, 1}
    return {1} if x < y else {0}


def reference(f, mc, sd, lw, nw, fstd, rng):
    """Admissible verdict sets for the 3 + 6 criteria, or None when the peak itself is ambiguous."""
    n = len(f)
    lo_b, hi_b = rng
    if lo_b is None and hi_b is None:
        slices = [(0, n)]
    else:
        lo_v = f[0] if lo_b is None else lo_b
        hi_v = f[-1] if hi_b is None else hi_b
        lo_v, hi_v = min(lo_v, hi_v), max(lo_v, hi_v)
        slices = [(a, b + d) for a in oracle.nearest_index(f, lo_v) for b in oracle.nearest_index(f, hi_v) for d in (1, 0)]
    peaks = set()
    for a, b in slices:
        q = _highest_peak(mc[a:b]) if b - a >= 3 else None
        peaks.add(None if q is None else a + q)
    if len(peaks) != 1:
        return None
    p = peaks.pop()
    if p is None:
        return "no-peak"
    f0, A0 = f[p], mc[p]

    def verdicts(a, b):
        f0, A0 = f[p], mc[p]
        sa = np.exp(sd)
        rel, cl = [], []
        rel.append(_cmp(10.0 / lw, f0, None))
        rel.append(_cmp(200.0, lw * nw * f0, None))

        def regions(lo, hi):
            """index sets under the readings: open/closed interval x trimmed/full curve"""
            out = []
            idx_all = np.arange(n)
            for trimmed in (True, False):
                base = (idx_all >= a) & (idx_all < b) if trimmed else np.ones(n, dtype=bool)
                for closed in (False, True):
                    m = ((f >= lo) & (f <= hi)) if closed else ((f > lo) & (f < hi))
                    out.append(base & m)
            return out
        # reliability iii
        limits = [2.0] if f0 > 0.5 else [3.0]
        if abs(f0 - 0.5) < 1e-12:
            limits = [2.0, 3.0]
        v = set()
        for reg in regions(0.5 * f0, 2.0 * f0):
            if reg.any():
                for lim in limits:
                    v |= _cmp(float(np.max(sa[reg])), lim, None)
        rel.append(v or {0, 1})
        # clarity i, ii
        for lo, hi in ((f0 / 4.0, f0), (f0, 4.0 * f0)):
            v = set()
            for reg in regions(lo, hi):
                reg = reg & (np.arange(n) != p)
                vals = mc[reg]
                if len(vals) == 0:
                    v.add(0)
                    continue
                knife = np.any(np.abs(vals - A0 / 2.0) < 1e-9 * A0)
                if knife:
                    v |= {0, 1}
                else:
                    v.add(int(np.any(vals < A0 / 2.0)))
            cl.append(v)
        cl.append(_cmp(2.0, A0, None))
        # clarity iv: peaks of the upper / lower curves within 5 % of f0
        up = _highest_peak((mc * sa)[a:b])
        dn = _highest_peak((mc / sa)[a:b])
        if up is None or dn is None:
            cl.append({0})        # a +/- std curve without a peak in the range cannot have it within 5 % of f0
        else:
            v = {1}
            for q in (a + up, a + dn):
                inside = _cmp(0.95 * f0, f[q], None) & _cmp(f[q], 1.05 * f0, None) if False else None
                lo_ok, hi_ok = _cmp(0.95 * f0, f[q], None), _cmp(f[q], 1.05 * f0, None)
                if lo_ok == {0} or hi_ok == {0}:
                    v = {0}
                    break
                if lo_ok == {0, 1} or hi_ok == {0, 1}:
                    v = {0, 1}
            cl.append(v)
        # table
        cols = set()
        for k, e in enumerate(EDGES):
            pass
        if f0 < 0.2:
            cols = {0}
        elif f0 == 0.2:
            cols = {1}
        elif f0 < 0.5:
            cols = {1}
        elif f0 == 0.5:
            cols = {1, 2}
        elif f0 < 1.0:
            cols = {2}
        elif f0 == 1.0:
            cols = {2, 3}
        elif f0 < 2.0:
            cols = {3}
        elif f0 == 2.0:
            cols = {3, 4}      # the table lists 2.0 under '1.0 - 2.0'; the '> 2.0' reading of the code is accepted too (DESIGN 4.2)
        else:
            cols = {4}
        v5, v6 = set(), set()
        for c in cols:
            eps, theta = TABLE[c]
            v5 |= _cmp(fstd, eps * f0, None)
            v6 |= _cmp(float(sa[p]), theta, None)
        cl += [v5, v6]
        return rel, cl, cols

    # every admissible reading of the range ends (nearest-sample ties, inclusive / exclusive upper end) contributes
    merged_rel, merged_cl, cols = None, None, None
    for a_, b_ in sorted(set(slices)):
        if b_ - a_ < 3 or not (a_ <= p < b_):
            continue
        rel_, cl_, cols = verdicts(a_, b_)
        if merged_rel is None:
            merged_rel, merged_cl = [set(x) for x in rel_], [set(x) for x in cl_]
        else:
            merged_rel = [x | y for x, y in zip(merged_rel, rel_)]
            merged_cl = [x | y for x, y in zip(merged_cl, cl_)]
    if merged_rel is None:
        return None
    rel, cl = merged_rel, merged_cl
    return dict(rel=rel, cl=cl, f0=float(f0), A0=float(A0), cols=cols)


def _call(fn, *args, verbose=0, **kw):
    buf = io.StringIO()
    with contextlib.redirect_stdout(buf):
        out = sut(fn, *args, verbose=verbose, allow=(ValueError, TypeError, IndexError), what=fn.__name__, **kw)
    return np.asarray(out, dtype=float), buf.getvalue()


def check_case(case):
    from hvsrpy import sesame
    f, mc, sd = build(case)
    rng = tuple(case["range"])
    lw, nw, fstd = case["lw"], case["nw"], case["fstd"]
    ref = reference(f, mc, sd, lw, nw, fstd, rng)
    labels = ["big-2^%d-frequencies" % int(np.log2(case["npts"]))] if case.get("big") else []
    if case.get("descending"):
        f_up, mc_up, sd_up = f, mc, sd
        f, mc, sd = f[::-1].copy(), mc[::-1].copy(), sd[::-1].copy()       # as handed to the library; the reference used the ascending view
        labels.append("descending-storage")
    if ref is None:
        return dict(labels=["snap-ambiguous"], nontrivial=False)
    if ref == "no-peak":
        # no local maximum inside the search range: outside the property ("for all curves with a peak")
        return dict(labels=["no-peak-in-range"], nontrivial=False)
    try:
        vr, _ = _call(sesame.reliability, lw, nw, f, mc, sd, search_range_in_hz=rng, verbose=0)
        vc, _ = _call(sesame.clarity, f, mc, sd, fstd, search_range_in_hz=rng, verbose=0)
    except Refusal as r:
        raise Violation(f"SESAME evaluation raised {r.exc!r} for a curve with a peak at {ref['f0']:.6g} Hz in range {rng}")
    require(vr.shape == (3,) and vc.shape == (6,), f"verdict arrays have shapes {vr.shape}, {vc.shape}")
    names = ["reliability i", "reliability ii", "reliability iii", "clarity i", "clarity ii", "clarity iii", "clarity iv", "clarity v", "clarity vi"]
    got = [int(x) for x in vr] + [int(x) for x in vc]
    adm = ref["rel"] + ref["cl"]
    decidable = 0
    for name, g, a in zip(names, got, adm):
        if len(a) == 1:
            decidable += 1
            if g not in a:
                raise Violation(f"{name}: verdict {g}, the guideline gives {a.pop()} (peak {ref['f0']!r} Hz, A0={ref['A0']:.6g}, window length {lw:.6g} s, "
                                f"{nw} windows, sigma_f={fstd:.6g}, search range {rng}, table column {sorted(ref['cols'])})")
        labels.append(f"{name}={'pass' if g else 'fail'}")
    # storage order: the same curve handed over in ascending order gives the same verdicts
    if case.get("descending"):
        try:
            vr_up, _ = _call(sesame.reliability, lw, nw, f_up, mc_up, sd_up, search_range_in_hz=rng, verbose=0)
            vc_up, _ = _call(sesame.clarity, f_up, mc_up, sd_up, fstd, search_range_in_hz=rng, verbose=0)
        except Refusal as r:
            raise Violation(f"the curve stored in ascending order is refused ({r.exc!r}) while the descending copy is evaluated")
        require(np.array_equal(vr, vr_up) and np.array_equal(vc, vc_up),
                f"verdicts depend on the storage order of the frequency vector: descending {vr.tolist()} {vc.tolist()}, ascending {vr_up.tolist()} {vc_up.tolist()} (range {rng})")
    # verdicts do not depend on the verbosity
    if case["verbose"]:
        try:
            vr2, out1 = _call(sesame.reliability, lw, nw, f, mc, sd, search_range_in_hz=rng, verbose=case["verbose"])
            vc2, out2 = _call(sesame.clarity, f, mc, sd, fstd, search_range_in_hz=rng, verbose=case["verbose"])
        except Refusal as r:
            raise Violation(f"verbose={case['verbose']} raises {r.exc!r} where verbose=0 returns verdicts")
        require(np.array_equal(vr, vr2) and np.array_equal(vc, vc2), f"verdicts depend on verbose={case['verbose']}: {vr2.tolist()} {vc2.tolist()} vs {vr.tolist()} {vc.tolist()}")
        require(len(out1) > 0 and len(out2) > 0, "verbose output is empty")
    # monotonic directions
    vr3, _ = _call(sesame.reliability, lw * case["lw_factor"], nw + case["nw_add"], f, mc, sd, search_range_in_hz=rng, verbose=0)
    if vr[1] == 1 and vr3[1] == 0:
        raise Violation(f"criterion ii passes with {nw} windows of {lw:.6g} s but fails with {nw + case['nw_add']} windows of {lw * case['lw_factor']:.6g} s")
    vc3, _ = _call(sesame.clarity, f, mc, sd, fstd * case["fstd_factor"], search_range_in_hz=rng, verbose=0)
    if vc[4] == 1 and vc3[4] == 0:
        raise Violation(f"criterion v passes with sigma_f={fstd:.6g} but fails with the smaller sigma_f={fstd * case['fstd_factor']:.6g}")
    f0 = ref["f0"]
    labels.append("band=%d" % sum(f0 >= e for e in EDGES))
    if f0 in EDGES:
        labels.append(f"edge={f0}")
    if rng != (None, None):
        labels.append("bounded-range")
    if rng[0] is not None and rng[1] is not None and rng[0] > rng[1]:
        labels.append("limits-in-reverse-order")
    nontrivial = 0 < sum(got) < 9 and decidable >= 7
    return dict(labels=labels, nontrivial=nontrivial)
