"""C04 - Sensor orientation and azimuth handling are geometrically consistent."""
import math

import numpy as np
from hypothesis import strategies as st

from .. import gen, oracle
from ..core import Violation, require, sut, close, same_bits, rel_err

ID = "C04"
RULE = ("Cases: one recording (16-300 samples, drawn recipes) deployed at d in [-720,720], two target orientations, a "
        "polarised-motion scenario (true azimuth theta, deployment d), a target x for preprocess (incl. 0 and +-360), and a "
        "processing configuration (operator, bandwidth, taper, centre frequencies, azimuth, azimuth set, two percentiles, one "
        "rotation-invariant method). Non-trivial = the rotation angle is >= 1 degree away from every multiple of 90 and the "
        "horizontals are not proportional; distinct by SHA-1 of the case."
        ' Scale pass: recordings of 2^15 to 3x2^20 samples (rotation algebra, polarisation scenario and preprocess only).')
ASSUMPTIONS = [
    "rotation identities compared with atol 1e-11 x max|horizontal| (float64 rounding of sin/cos)",
    "processing relations compared with rtol 1e-9; azimuthal vs. single azimuth bit for bit",
]
BUDGET = {"quick": 640, "thorough": 16000}
SHARDS = {"quick": 8, "thorough": 16}
TECHNIQUE = "property-based testing: own rotation formula, physical polarisation scenario, metamorphic processing relations"

ANGLES = st.one_of(gen.floats(-720, 720), st.sampled_from([0.0, 90.0, 180.0, 270.0, 360.0, -90.0, -360.0, 400.0, 45.0, 720.0]))
INVARIANT = ["squared_average", "quadratic_mean", "root_mean_square", "effective_amplitude_spectrum",
             "total_horizontal_energy", "vector_summation", "diffuse_field"]


@st.composite
def strategy(draw):
    dt = draw(gen.choice(gen.DTS))
    n = draw(st.integers(16, 300))
    exp = draw(st.one_of(st.integers(-6, 6), st.just(-10)))
    rec = draw(gen.recording_recipe(n=n, dt=dt, scale_exp=(exp, exp), kinds=("noise", "sines", "chirp", "spikes", "raw")))
    rec["degrees_from_north"] = draw(ANGLES)
    spec = draw(gen.processing_spec(n_max=300, methods=["single_azimuth"], policy="frequency_domain_resampling",
                                    fft_choices=(None, 2 ** 15)))
    fcs = draw(gen.center_frequencies(spec["op"], spec["bw"], 1.0 / (spec["_nfft"] * dt), 0.5 / dt, max_size=12))
    if fcs is None:
        spec["op"], spec["bw"] = "konno_and_ohmachi", 40.0
        fcs = draw(gen.center_frequencies(spec["op"], spec["bw"], 1.0 / (spec["_nfft"] * dt), 0.5 / dt, max_size=12))
    spec["fcs"] = fcs
    azs = draw(st.lists(st.one_of(gen.floats(0, 179.999), st.sampled_from([0.0, 30.0, 45.0, 90.0, 135.0])),
                        min_size=1, max_size=6, unique=True))
    if draw(st.booleans()):
        azs = sorted(azs)           # otherwise as drawn: the result lists the azimuths in the order requested
    p1, p2 = sorted([draw(st.one_of(gen.floats(0, 100), st.sampled_from([0.0, 50.0, 100.0]))) for _ in range(2)])
    a = draw(ANGLES)
    b = draw(ANGLES)
    near = draw(st.sampled_from(["no", "no", "a-near-deployed", "b-near-a"]))
    delta = draw(st.sampled_from([1e-3, -2e-3, 3e-3, 1e-4, -5e-5]))
    if near == "a-near-deployed":
        a = rec["degrees_from_north"] % 360.0 + delta       # a small correction of the deployed orientation
    elif near == "b-near-a":
        b = a + delta
    return dict(rec=rec, a=a, b=b, theta=draw(ANGLES), d_pol=draw(ANGLES),
                pol=draw(gen.signal_recipe(kinds=("noise", "sines", "chirp"), scale_exp=(exp, exp))),
                x_pre=draw(st.one_of(ANGLES, st.sampled_from([0.0, 0.0, 360.0]))), spec=spec, azimuths=azs, p1=p1, p2=p2,
                inv_method=draw(gen.choice(INVARIANT)), inv_angle=draw(ANGLES), inherited_meta=draw(gen.chance(4)))


BIG = {"quick": 24, "thorough": 192}


@st.composite
def strategy_big(draw):
    """Deployment-scale recordings (2^15 .. 3*2^20 samples, i.e. up to ~9 h at 100 Hz): rotation algebra, the
    polarised-motion scenario and preprocess only (the processing relations do not depend on the record length)."""
    case = draw(strategy())
    n = draw(gen.big_size(2 ** 15, 3 * 2 ** 20))
    case["rec"]["n"] = n
    case["big"] = True
    return case


def warmup():
    from . import c02
    c02.warmup()


def _ang_eq(x, y, tol=1e-9):
    return abs(((float(x) - float(y) + 180.0) % 360.0) - 180.0) <= tol


def _rot(ns, ew, delta_deg):
    r = math.radians(delta_deg)
    c, s = math.cos(r), math.sin(r)
    return ns * c + ew * s, -ns * s + ew * c


def check_case(case):
    import hvsrpy as hv
    TS, R = hv.TimeSeries, hv.SeismicRecording3C
    r = case["rec"]
    ns, ew, vt = gen.expand_recording_arrays(r)
    dt, d = r["dt"], r["degrees_from_north"]
    scale = max(float(np.max(np.abs(ns))), float(np.max(np.abs(ew))), 1e-300)
    atol = 1e-11 * scale
    labels = []

    def mk(dfn=d, comps=None):
        a, b, c = comps if comps is not None else (ns, ew, vt)
        meta = None
        if case.get("inherited_meta"):
            # metadata taken over from a recording that sits at the first target orientation
            meta = R(TS(a, dt), TS(b, dt), TS(c, dt), degrees_from_north=case["a"]).meta
        return R(TS(a, dt), TS(b, dt), TS(c, dt), degrees_from_north=dfn, meta=meta)

    # ---- rotation algebra ------------------------------------------------
    a, b = case["a"], case["b"]
    rec = mk()
    require(_ang_eq(rec.degrees_from_north, d), f"constructor stores orientation {rec.degrees_from_north} for {d}")
    sut(rec.orient_sensor_to, a, what="orient_sensor_to")
    ens, eew = _rot(ns, ew, a - d)
    if not (close(rec.ns.amplitude, ens, rtol=0, atol=atol) and close(rec.ew.amplitude, eew, rtol=0, atol=atol)):
        raise Violation(f"orient_sensor_to({a}) of a sensor at {d}: horizontals are not the clockwise rotation by {a - d} degrees "
                        f"(max error ns {np.max(np.abs(rec.ns.amplitude - ens)):.3g}, ew {np.max(np.abs(rec.ew.amplitude - eew)):.3g}, scale {scale:.3g})")
    require(same_bits(rec.vt.amplitude, vt), "orient_sensor_to changed the vertical component")
    e0 = ns ** 2 + ew ** 2
    e1 = rec.ns.amplitude ** 2 + rec.ew.amplitude ** 2
    require(close(e1, e0, rtol=1e-11, atol=1e-11 * scale ** 2), "orient_sensor_to does not preserve the horizontal energy sample by sample")
    require(_ang_eq(rec.degrees_from_north, a),
            f"after orient_sensor_to({a}) degrees_from_north is {rec.degrees_from_north}")
    # composition: a then b == b directly
    sut(rec.orient_sensor_to, b, what="orient_sensor_to")
    direct = mk()
    sut(direct.orient_sensor_to, b, what="orient_sensor_to")
    if not (close(rec.ns.amplitude, direct.ns.amplitude, rtol=0, atol=2 * atol) and close(rec.ew.amplitude, direct.ew.amplitude, rtol=0, atol=2 * atol)):
        raise Violation(f"orienting a sensor at {d} to {a} and then to {b} differs from orienting it to {b} directly "
                        f"(max diff {max(np.max(np.abs(rec.ns.amplitude - direct.ns.amplitude)), np.max(np.abs(rec.ew.amplitude - direct.ew.amplitude))):.3g}, scale {scale:.3g})")
    # inverse: back to d restores
    sut(rec.orient_sensor_to, d, what="orient_sensor_to")
    if not (close(rec.ns.amplitude, ns, rtol=0, atol=3 * atol) and close(rec.ew.amplitude, ew, rtol=0, atol=3 * atol)):
        raise Violation(f"orienting {d} -> {a} -> {b} -> {d} does not restore the samples")

    # the caller edits the horizontals in place between two orientations (gain correction, taper): the second orientation
    # rotates what the recording holds *now*
    rec2 = mk()
    sut(rec2.orient_sensor_to, a, what="orient_sensor_to")
    rec2.ew.amplitude *= 0.5
    rec2.ns.amplitude[:] = rec2.ns.amplitude + 0.25 * scale
    m_ns, m_ew = _rot(ens + 0.25 * scale, eew * 0.5, b - a)
    sut(rec2.orient_sensor_to, b, what="orient_sensor_to")
    if not (close(rec2.ns.amplitude, m_ns, rtol=0, atol=3 * atol) and close(rec2.ew.amplitude, m_ew, rtol=0, atol=3 * atol)):
        raise Violation(f"sensor at {d} oriented to {a}, horizontals then edited in place (ew halved, ns shifted), oriented to {b}: the result is not the rotation "
                        f"of the edited samples by {b - a} degrees (max error {max(np.max(np.abs(rec2.ns.amplitude - m_ns)), np.max(np.abs(rec2.ew.amplitude - m_ew))):.3g}, scale {scale:.3g})")

    # ---- physical scenario -----------------------------------------------
    theta, dp = case["theta"], case["d_pol"]
    s = gen.expand_signal(case["pol"], r["n"])
    sscale = max(float(np.max(np.abs(s))), 1e-300)
    pns = s * math.cos(math.radians(theta - dp))
    pew = s * math.sin(math.radians(theta - dp))
    prec = mk(dfn=dp, comps=(pns, pew, vt))
    sut(prec.orient_sensor_to, 0.0, what="orient_sensor_to")
    if not (close(prec.ns.amplitude, s * math.cos(math.radians(theta)), rtol=0, atol=1e-11 * sscale) and
            close(prec.ew.amplitude, s * math.sin(math.radians(theta)), rtol=0, atol=1e-11 * sscale)):
        raise Violation(f"motion polarised along true azimuth {theta}, sensor deployed at {dp}: after orient_sensor_to(0) "
                        f"north/east are not s*cos(theta)/s*sin(theta)")
    prec2 = mk(dfn=dp, comps=(pns, pew, vt))
    sut(prec2.orient_sensor_to, theta, what="orient_sensor_to")
    if not (close(prec2.ns.amplitude, s, rtol=0, atol=1e-11 * sscale) and close(prec2.ew.amplitude, 0 * s, rtol=0, atol=1e-11 * sscale)):
        raise Violation(f"motion polarised along {theta}, sensor at {dp}: after orient_sensor_to({theta}) the energy is not all on ns "
                        f"(max |ew| {np.max(np.abs(prec2.ew.amplitude)):.3g}, scale {sscale:.3g})")
    # preprocess orients exactly like orient_sensor_to
    x = case["x_pre"]
    pset = hv.HvsrPreProcessingSettings(orient_to_degrees_from_north=x, filter_corner_frequencies_in_hz=[None, None],
                                        window_length_in_seconds=None, detrend=None)
    pre = sut(hv.preprocess, [mk(dfn=dp, comps=(pns, pew, vt))], pset, what="preprocess")
    want = mk(dfn=dp, comps=(pns, pew, vt))
    want.orient_sensor_to(x)
    require(len(pre) == 1, f"preprocess without splitting returned {len(pre)} windows")
    if not (same_bits(pre[0].ns.amplitude, want.ns.amplitude) and same_bits(pre[0].ew.amplitude, want.ew.amplitude)):
        ex_ns, ex_ew = _rot(pns, pew, x - dp)
        raise Violation(f"preprocess(orient_to_degrees_from_north={x}) of a sensor deployed at {dp} is not orient_sensor_to({x}): "
                        f"max deviation from the rotated samples {max(np.max(np.abs(pre[0].ns.amplitude - ex_ns)), np.max(np.abs(pre[0].ew.amplitude - ex_ew))):.3g} (scale {sscale:.3g})")
    require(_ang_eq(pre[0].degrees_from_north, x),
            f"preprocess(orient_to_degrees_from_north={x}) reports orientation {pre[0].degrees_from_north}")
    if x % 360 == 0 and dp % 360 != 0:
        labels.append("preprocess-to-north")

    if case.get("big"):
        delta = (a - d) % 90.0
        labels.append("big-2^%d" % int(math.log2(r["n"])))
        return dict(labels=labels, nontrivial=min(delta, 90.0 - delta) >= 1.0)

    # ---- processing relations ---------------------------------------------
    spec = case["spec"]
    az = spec["azimuth"]

    def run(spec_, dfn=0.0, comps=None, orient_to=None):
        rr = mk(dfn=dfn, comps=comps)
        if orient_to is not None:
            rr.orient_sensor_to(orient_to)
        return sut(hv.process, [rr], gen.make_settings(hv, spec_), what=f"process[{spec_['method']}]")

    # conditioning: a projection can be tiny where the other horizontal is large (sin(pi) = 1.2e-16 leaks it
    # in); differences are therefore judged relative to the total horizontal level at that frequency
    the = run(dict(spec, method="total_horizontal_energy")).amplitude[0]
    sa = run(spec).amplitude[0]
    sa0 = run(dict(spec, azimuth=0.0), orient_to=az).amplitude[0]

    nfft_used = spec["_nfft"]
    dyn = oracle.dynamic_range((ns, ew, vt), dt, spec["width"], nfft_used, spec["op"], spec["bw"], np.array(spec["fcs"]))

    def pclose(x, y, rtol=1e-9):
        x, y = np.asarray(x, dtype=float), np.asarray(y, dtype=float)
        tol = (rtol + 1e-13 * dyn) * np.maximum(np.abs(x), np.abs(y)) + 1e-10 * the
        return bool(np.all(np.abs(x - y) <= tol))
    if not pclose(sa, sa0, rtol=1e-9):
        raise Violation(f"single-azimuth HVSR at {az} differs from the HVSR of the north component after orienting the sensor to {az} "
                        f"(rel diff {rel_err(sa, sa0):.3g})")
    sa180 = run(dict(spec, azimuth=az + 180.0)).amplitude[0]
    if not pclose(sa, sa180, rtol=1e-9):
        raise Violation(f"single-azimuth HVSR is not 180-degree periodic: azimuth {az} vs {az + 180} (rel diff {rel_err(sa, sa180):.3g})")
    # azimuthal = stack of single azimuth results, bit for bit
    azs = case["azimuths"]
    azi = run(dict(spec, method="azimuthal", azimuths=azs))
    require([float(v) for v in azi.azimuths] == [float(v) for v in azs], f"azimuthal result lists azimuths {list(azi.azimuths)} for request {azs}")
    singles = []
    for a_i, h in zip(azs, azi.hvsrs):
        one = run(dict(spec, azimuth=a_i)).amplitude
        singles.append(one[0])
        if not same_bits(h.amplitude, one):
            raise Violation(f"azimuthal result at azimuth {a_i} is not the single-azimuth result (rel diff {rel_err(h.amplitude, one):.3g}); "
                            f"taper {spec['width']:.3g}, operator {spec['op']}")
    singles = np.array(singles)
    # RotDpp
    rp1 = run(dict(spec, method="rotdpp", azimuths=azs, percentile=case["p1"])).amplitude[0]
    rp2 = run(dict(spec, method="rotdpp", azimuths=azs, percentile=case["p2"])).amplitude[0]
    tol = 1e-9 * np.abs(rp2) + 1e-10 * the
    require(np.all(rp1 <= rp2 + tol), f"RotD{case['p1']:.4g} exceeds RotD{case['p2']:.4g} at some frequency")
    lo, hi = singles.min(axis=0), singles.max(axis=0)
    require(np.all(rp1 >= lo * (1 - 1e-9) - 1e-10 * the) and np.all(rp2 <= hi * (1 + 1e-9) + 1e-10 * the),
            f"RotDpp lies outside [min, max] of the single-azimuth curves over the azimuth set {azs}")
    r0 = run(dict(spec, method="rotdpp", azimuths=azs, percentile=0.0)).amplitude[0]
    r100 = run(dict(spec, method="rotdpp", azimuths=azs, percentile=100.0)).amplitude[0]
    if not (pclose(r0, lo, rtol=1e-9) and pclose(r100, hi, rtol=1e-9)):
        raise Violation(f"RotD0/RotD100 are not the minimum/maximum over the azimuths {azs} (rel diff {rel_err(r0, lo):.3g} / {rel_err(r100, hi):.3g})")
    # linearly polarised horizontals and an azimuth set that contains the direction perpendicular to the motion
    # (the rotated component is then ~1e-16 of the motion, not exactly zero): RotD0 / RotD100 stay finite and are min / max
    pol_comps = (pns, pew, vt)
    azs2 = sorted({round(v % 180.0, 9) for v in list(azs) + [theta - dp + 90.0, theta + 90.0]})
    the2 = run(dict(spec, method="total_horizontal_energy"), dfn=dp, comps=pol_comps).amplitude[0]
    singles2 = np.array([run(dict(spec, azimuth=a_i), dfn=dp, comps=pol_comps).amplitude[0] for a_i in azs2])
    q0 = run(dict(spec, method="rotdpp", azimuths=azs2, percentile=0.0), dfn=dp, comps=pol_comps).amplitude[0]
    q100 = run(dict(spec, method="rotdpp", azimuths=azs2, percentile=100.0), dfn=dp, comps=pol_comps).amplitude[0]
    tol2 = 1e-9 * np.abs(singles2).max(axis=0) + 1e-10 * the2
    if not (np.all(np.abs(q0 - singles2.min(axis=0)) <= tol2) and np.all(np.abs(q100 - singles2.max(axis=0)) <= tol2)):
        raise Violation(f"polarised motion (azimuth {theta}, sensor at {dp}): RotD0/RotD100 over the azimuths {azs2} are not the minimum/maximum of the single-azimuth curves")
    labels.append("rotdpp-on-polarised-motion")
    # rotation-invariant combinations
    im = case["inv_method"]
    ispec = dict(spec, method=im)
    if im == "diffuse_field":
        ispec["policy"] = "keeping_majority_time_step"
    base = np.atleast_2d(run(ispec, dfn=d).amplitude)
    turned = np.atleast_2d(run(ispec, dfn=d, orient_to=case["inv_angle"]).amplitude)
    if not pclose(base, turned, rtol=1e-9):
        raise Violation(f"{im} depends on the sensor orientation: sensor at {d} vs re-oriented to {case['inv_angle']} (rel diff {rel_err(base, turned):.3g})")
    labels.append(gen.family(im))

    delta = (a - d) % 90.0
    nonprop = abs(float(np.dot(ns, ew))) < 0.999999 * float(np.linalg.norm(ns) * np.linalg.norm(ew))
    nontrivial = min(delta, 90.0 - delta) >= 1.0 and nonprop
    return dict(labels=labels, nontrivial=nontrivial)
