"""C11 - Azimuthal statistics give every azimuth equal weight (Cheng et al. 2020)."""
import math

import numpy as np
from hypothesis import strategies as st

from .. import gen, oracle
from ..core import Violation, Refusal, require, sut, close, same_bits, rel_err
from . import c06, c08

ID = "C11"
RULE = ("Cases: 1-6 azimuths (incl. sets containing both 0 and 180 and, rarely, a repeated azimuth) with 2-8 windows each "
        "(equal or unequal counts), every window with a clear peak, and a history of 1-3 accept/reject states (per-azimuth "
        "masks with >= 1 accepted window per azimuth, set on both masks; optionally produced by frequency_domain_window_"
        "rejection) with all statistics queried after each state. Non-trivial = >= 2 azimuths with unequal accepted counts "
        "whose per-azimuth mean fn differ by > 1e-3 (relative); distinct by SHA-1 of the case."
        ' Scale pass: 2-180 azimuths x up to 9000 windows (azimuths x windows^2 up to 4e8), 1-40 windows rejected on one azimuth.')
ASSUMPTIONS = [
    "both accept masks carry the same selection (the states produced by the library's rejection functions)",
    "total number of accepted windows >= 2 (the 1 - sum(w^2) normalisation is otherwise 0/0)",
    "comparison rtol 1e-10 against the explicit weighted formulas; reductions rtol 1e-12",
]
BUDGET = {"quick": 1000, "thorough": 40000}
SHARDS = {"quick": 8, "thorough": 16}
TECHNIQUE = "model-based property testing: explicit Cheng et al. weights in numpy, reductions (single azimuth, equal counts), permutation and garbage-twin relations over mask histories"

DISTS = ["lognormal", "normal", "log-normal"]


@st.composite
def strategy(draw):
    nf = draw(st.integers(20, 60))
    f0 = draw(gen.floats(0.1, 0.5))
    f = [float(v) for v in np.geomspace(f0, f0 * draw(gen.floats(30, 150)), nf)]
    naz = draw(st.sampled_from([1, 2, 2, 3, 4, 5, 6]))
    equal = draw(st.booleans())
    n0 = draw(st.integers(2, 8))
    groups = []
    for _ in range(naz):
        groups.append(dict(nwin=n0 if equal else draw(st.integers(2, 8)), seed=draw(gen.seeds32), centre=draw(gen.floats(0.3, 0.7)),
                           sigma=draw(gen.log_floats(0.01, 0.1)), outlier_frac=0.0, outlier_sigma=0.1, bimodal=0.0, bimodal_frac=0.3,
                           second_bump=False))
    kind = draw(st.sampled_from(["spread", "spread", "with-0-and-180", "repeated"]))
    if kind == "with-0-and-180" and naz >= 2:
        mid = sorted(draw(st.lists(gen.floats(1, 179), min_size=naz - 2, max_size=naz - 2, unique=True)))
        azs = [0.0] + mid + [180.0]
    elif kind == "repeated" and naz >= 2:
        azs = sorted(draw(st.lists(gen.floats(0, 180), min_size=naz - 1, max_size=naz - 1, unique=True)))
        azs = azs + [azs[-1]]
    else:
        azs = sorted(draw(st.lists(st.one_of(gen.floats(0, 180), st.sampled_from([0.0, 45.0, 90.0, 135.0])), min_size=naz, max_size=naz, unique=True)))
    states = []
    for _ in range(draw(st.integers(1, 3))):
        how = draw(st.sampled_from(["masks", "masks", "fdwr"]))
        if how == "masks":
            masks = []
            for g in groups:
                m = [draw(st.sampled_from([True, True, False])) for _ in range(g["nwin"])]
                if not any(m):
                    m[draw(st.integers(0, g["nwin"] - 1))] = True
                masks.append(m)
            states.append(dict(how="masks", masks=masks))
        else:
            states.append(dict(how="fdwr", n=draw(st.sampled_from([1.0, 1.5, 2.0])), dist=draw(st.sampled_from(["lognormal", "normal"]))))
    return dict(f=f, groups=groups, azimuths=azs, states=states, nstd=draw(st.sampled_from([1.0, 2.0, 0.5])),
                perm=draw(st.permutations(list(range(naz)))),
                # an accepted window with a dead sample (amplitude exactly 0 at one frequency, a valid input): in log space that
                # column is undefined and is not compared; every other column must be unaffected
                zero=(dict(az=draw(st.integers(0, naz - 1)), win=draw(st.integers(0, 7)), col=draw(gen.floats(0.05, 0.3))) if draw(gen.chance(5)) else None))


BIG = {"quick": 12, "thorough": 96}


@st.composite
def strategy_big(draw):
    """Deployment-scale azimuthal results: 2-180 azimuths x up to 9 000 windows (azimuths x windows^2 between 1e6 and
    4e8, at most 140 000 windows in total), accepted counts that differ by a handful of windows between azimuths."""
    case = draw(strategy())
    naz = draw(st.sampled_from([2, 2, 3, 6, 10, 36, 90, 180]))
    target = 10.0 ** draw(st.sampled_from([6.0, 6.5, 7.0, 7.5, 8.0, 8.2, 8.4, 8.6]))
    nwin = int(max(8, min(math.sqrt(target / naz), 140_000 // naz, 9000)))
    f0 = case["f"][0]
    case["f"] = [float(v) for v in np.geomspace(f0, f0 * 60.0, 20)]
    proto = case["groups"][0]
    case["groups"] = [dict(proto, nwin=nwin, seed=(proto["seed"] + 101 * j) % 2 ** 32, centre=0.35 + 0.3 * ((j * 7) % naz) / naz) for j in range(naz)]
    case["azimuths"] = [float(v) for v in np.linspace(0.0, 180.0, naz, endpoint=False)]
    case["perm"] = list(range(naz))
    case["states"] = [dict(how="reject-few", az=draw(st.integers(0, naz - 1)), count=draw(st.sampled_from([1, 1, 2, 5, 40])), seed=draw(gen.seeds32))
                      for _ in range(draw(st.sampled_from([1, 2])))]
    case["big"] = True
    return case


def _flat(masks, arrays):
    return np.concatenate([np.asarray(a)[np.asarray(m, dtype=bool)] for a, m in zip(arrays, masks)])


def _weights(masks):
    A = len(masks)
    return np.concatenate([np.full(int(np.sum(m)), 1.0 / (A * int(np.sum(m)))) for m in masks])


def _wstats(x, w, dist, nstd):
    dist = "lognormal" if dist == "log-normal" else dist
    y = np.log(x) if dist == "lognormal" else x
    m = np.sum(w * y)
    s = math.sqrt(np.sum(w * (y - m) ** 2) / (1.0 - np.sum(w ** 2)))
    mean = math.exp(m) if dist == "lognormal" else m
    nth = (lambda n: math.exp(m + n * s)) if dist == "lognormal" else (lambda n: m + n * s)
    return mean, s, nth(nstd), nth(-nstd), y, m


def _reference(f, groups_A, pk_f, pk_a, masks, dist, nstd):
    dist = "lognormal" if dist == "log-normal" else dist      # accepted spelling of the same distribution
    w = _weights(masks)
    ref = {}
    xf, xa = _flat(masks, pk_f), _flat(masks, pk_a)
    mf, sf, upf, dnf, yf, mmf = _wstats(xf, w, dist, nstd)
    ma, sa, upa, dna, ya, mma = _wstats(xa, w, dist, nstd)
    ref.update({"mean_fn_frequency": mf, "std_fn_frequency": sf, f"nth_std_fn_frequency({nstd})": upf, f"nth_std_fn_frequency({-nstd})": dnf,
                "mean_fn_amplitude": ma, "std_fn_amplitude": sa, f"nth_std_fn_amplitude({nstd})": upa, f"nth_std_fn_amplitude({-nstd})": dna})
    norm = 1.0 - np.sum(w ** 2)
    cov = np.array([[np.sum(w * (yf - mmf) ** 2), np.sum(w * (yf - mmf) * (ya - mma))],
                    [np.sum(w * (yf - mmf) * (ya - mma)), np.sum(w * (ya - mma) ** 2)]]) / norm
    ref["cov_fn"] = cov
    rows = np.vstack([A[np.asarray(m, dtype=bool)] for A, m in zip(groups_A, masks)])
    Y = np.log(rows) if dist == "lognormal" else rows
    mc = w @ Y
    sc = np.sqrt((w @ (Y - mc) ** 2) / norm)
    ref["mean_curve"] = np.exp(mc) if dist == "lognormal" else mc
    ref["std_curve"] = sc
    for sgn in (+1, -1):
        ref[f"nth_std_curve({sgn * nstd})"] = np.exp(mc + sgn * nstd * sc) if dist == "lognormal" else mc + sgn * nstd * sc
    # plain average over azimuths of the per-azimuth means
    per_az = [np.mean((np.log(p) if dist == "lognormal" else p)[np.asarray(m, dtype=bool)]) for p, m in zip(pk_f, masks)]
    ref["_mean_of_means"] = math.exp(np.mean(per_az)) if dist == "lognormal" else float(np.mean(per_az))
    return ref


def _object_stats(h, dist, keys):
    out = {}
    for key in keys:
        if key.startswith("_"):
            continue
        if "(" in key:
            name, arg = key[:-1].split("(")
            raw = sut(getattr(h, name), float(arg), dist, what=f"HvsrAzimuthal.{name}")
        else:
            raw = sut(getattr(h, key), dist, what=f"HvsrAzimuthal.{key}")
        out[key] = np.array(raw, dtype=float, copy=True)
        if isinstance(raw, np.ndarray) and raw.ndim >= 1 and raw.flags.writeable:
            raw[...] = -7.0          # returned arrays belong to the caller: editing them must not change later answers
    return out


def check_case(case):
    import hvsrpy as hv
    f = np.array(case["f"], dtype=float)
    groups_A = [c06.expand_group(g, f) for g in case["groups"]]
    zero_col = None
    if case.get("zero") and not case.get("big"):
        z = case["zero"]
        A_ = groups_A[z["az"] % len(groups_A)]
        zero_col = max(1, int(z["col"] * len(f)))
        A_[z["win"] % len(A_), zero_col] = 0.0
    azs = case["azimuths"]
    naz = len(azs)
    nstd = case["nstd"]
    labels = [f"naz={naz}"] + (["dead-sample-in-accepted-window"] if zero_col is not None else [])

    def build(As, azimuths):
        return hv.HvsrAzimuthal([hv.HvsrTraditional(f, A) for A in As], azimuths)

    h = build(groups_A, azs)
    require([float(a) for a in h.azimuths] == [float(a) for a in azs], "azimuths not preserved by HvsrAzimuthal")
    # per-window peaks (independent single-curve evaluation, full range)
    pk_f, pk_a = [], []
    for A in groups_A:
        fr, am = [], []
        for a in A:
            i = oracle.ref_peak_slice(f, a, 0, len(f))
            require(i is not None, "harness: generated window without a peak")
            fr.append(f[i])
            am.append(a[i])
        pk_f.append(np.array(fr))
        pk_a.append(np.array(am))
    nontrivial = False

    def verify(step):
        nonlocal nontrivial
        masks = [np.asarray(t.valid_window_boolean_mask, dtype=bool).copy() for t in h.hvsrs]
        pmasks = [np.asarray(t.valid_peak_boolean_mask, dtype=bool).copy() for t in h.hvsrs]
        if any(not np.array_equal(a, b) for a, b in zip(masks, pmasks)) or any(m.sum() < 1 for m in masks) or sum(m.sum() for m in masks) < 2:
            labels.append("outside-domain-state")
            return
        counts = [int(m.sum()) for m in masks]
        for dist in DISTS:
            ref = _reference(f, groups_A, pk_f, pk_a, masks, dist, nstd)
            got = _object_stats(h, dist, ref.keys())
            for key, want in ref.items():
                if key.startswith("_"):
                    continue
                atol = 1e-12 * (float(np.max(groups_A[0])) * float(f[-1]) if dist == "normal" else 1.0) if ("std" in key and "nth" not in key) or key == "cov_fn" else 1e-300
                g_, w_ = got[key], want
                if key.startswith("nth_std_") and dist == "normal":
                    # mean + n*std can cancel (e.g. mean = 2*std, n = -2): tolerance relative to the terms, not to the difference
                    base, arg = key[len("nth_std_"):-1].split("(")
                    atol = 1e-12 * (np.abs(np.asarray(ref["mean_" + base], dtype=float)) + abs(float(arg)) * np.abs(np.asarray(ref["std_" + base], dtype=float)))
                if zero_col is not None and "curve" in key and dist != "normal":
                    g_, w_ = np.delete(np.asarray(g_, dtype=float), zero_col), np.delete(np.asarray(w_, dtype=float), zero_col)
                if not close(g_, w_, rtol=1e-10, atol=atol):
                    raise Violation(f"{step}: {key} ({dist}) = {np.ravel(got[key])[:3].tolist()} differs from the equal-azimuth-weight estimator "
                                    f"{np.ravel(want)[:3].tolist()} (rel err {rel_err(got[key], want):.3g}); azimuths {azs}, accepted per azimuth {counts}")
            require(close(got["mean_fn_frequency"], ref["_mean_of_means"], rtol=1e-10),
                    f"{step}: mean fn ({dist}) is not the plain average over azimuths of the per-azimuth means")
            cov = got["cov_fn"]
            require(close(np.sqrt(cov[0, 0]), got["std_fn_frequency"], rtol=1e-9, atol=1e-12) and close(np.sqrt(cov[1, 1]), got["std_fn_amplitude"], rtol=1e-9, atol=1e-12),
                    f"{step}: variance on the covariance diagonal ({dist}) is not the squared standard deviation")
            try:
                mf, ma = sut(h.mean_curve_peak, dist, allow=(ValueError,), what="mean_curve_peak")
                mf, ma = float(mf), float(ma)
            except Refusal:
                mf, ma = math.nan, math.nan
            c08._check_peak(f"{step}: mean_curve_peak({dist})", f, got["mean_curve"], (None, None), mf, ma)
            # per-azimuth curves are the traditional ones
            mba = np.asarray(sut(h.mean_curve_by_azimuth, dist, what="mean_curve_by_azimuth"))
            for j, (A, m) in enumerate(zip(groups_A, masks)):
                want = A[m][0] if m.sum() == 1 else oracle.mean_dist(A[m], "normal" if dist == "normal" else "lognormal", axis=0)
                require(close(mba[j], want, rtol=1e-10), f"{step}: mean_curve_by_azimuth row {j} ({dist}) is not the mean of that azimuth's accepted windows")
            # reductions
            if naz == 1:
                t = hv.HvsrTraditional(f, groups_A[0])
                t.valid_window_boolean_mask = masks[0].copy()
                t.valid_peak_boolean_mask = masks[0].copy()
                for key in got:
                    name, arg = (key[:-1].split("(") + [None])[:2] if "(" in key else (key, None)
                    tv = getattr(t, name)(float(arg), dist) if arg is not None else getattr(t, name)(dist)
                    if not close(got[key], np.asarray(tv, dtype=float), rtol=1e-10, atol=1e-12):
                        raise Violation(f"{step}: single azimuth: {key} ({dist}) differs from the HvsrTraditional statistic (rel diff {rel_err(got[key], tv):.3g})")
                labels.append("single-azimuth-reduction")
            if naz >= 2 and len(set(counts)) == 1:
                rows = np.vstack([A[m] for A, m in zip(groups_A, masks)])
                pooled = hv.HvsrTraditional(f, rows)
                for key in ("mean_fn_frequency", "std_fn_frequency", "mean_curve", "std_curve", "std_fn_amplitude"):
                    tv = np.asarray(getattr(pooled, key)(dist), dtype=float)
                    if not close(got[key], tv, rtol=1e-10, atol=1e-12):
                        raise Violation(f"{step}: equal accepted counts {counts}: {key} ({dist}) differs from the unweighted statistic of the pooled windows (rel diff {rel_err(got[key], tv):.3g})")
                labels.append("equal-count-reduction")
        if case.get("big"):
            if naz >= 2 and len(set(counts)) > 1:
                labels.append("unequal")
                nontrivial = True
            return
        # permuting azimuths changes nothing
        p = list(case["perm"])
        hp = build([groups_A[j] for j in p], [azs[j] for j in p])
        for t, j in zip(hp.hvsrs, p):
            t.valid_window_boolean_mask = masks[j].copy()
            t.valid_peak_boolean_mask = masks[j].copy()
        # twin with garbage in the rejected rows
        G = [A.copy() for A in groups_A]
        any_rej = False
        for A, m in zip(G, masks):
            if (~m).any():
                A[~m] = A[~m][:, ::-1] * 9.0 + 2.0
                A[np.ix_(np.flatnonzero(~m)[::2], np.arange(0, A.shape[1], 3))] = 0.0      # dead samples (amplitude 0 is a valid input)
                any_rej = True
        tw = build(G, azs)
        for t, m in zip(tw.hvsrs, masks):
            t.valid_window_boolean_mask = m.copy()
            t.valid_peak_boolean_mask = m.copy()
        for dist in DISTS:
            keys = [k for k in _reference(f, groups_A, pk_f, pk_a, masks, dist, nstd) if not k.startswith("_")]
            a_ = _object_stats(h, dist, keys)
            b_ = _object_stats(hp, dist, keys)
            c_ = _object_stats(tw, dist, keys)
            for key in keys:
                if not close(a_[key], b_[key], rtol=1e-12, atol=1e-13):
                    raise Violation(f"{step}: {key} ({dist}) depends on the order of the azimuths (rel diff {rel_err(a_[key], b_[key]):.3g})")
                if any_rej and not same_bits(a_[key], c_[key]):
                    raise Violation(f"{step}: {key} ({dist}) changes when rejected windows are replaced by garbage (rel diff {rel_err(a_[key], c_[key]):.3g})")
        if naz >= 2 and len(set(counts)) > 1:
            labels.append("unequal")
            per = [float(np.mean(np.log(pf[m]))) for pf, m in zip(pk_f, masks)]
            if max(per) - min(per) > 1e-3:
                nontrivial = True

    if case.get("big"):
        labels.append("big-naz*nwin^2=1e%d" % int(math.log10(naz * len(groups_A[0]) ** 2)))
    else:
        verify("initial state (all accepted)")
    for k, stt in enumerate(case["states"], start=1):
        if stt["how"] == "reject-few":
            t = h.hvsrs[stt["az"]]
            ok = np.flatnonzero(t.valid_window_boolean_mask)
            drop = np.random.Generator(np.random.PCG64(stt["seed"])).choice(ok, size=min(stt["count"], len(ok) - 1), replace=False)
            t.valid_window_boolean_mask[drop] = False
            t.valid_peak_boolean_mask[drop] = False
        elif stt["how"] == "masks":
            for t, m in zip(h.hvsrs, stt["masks"]):
                t.valid_window_boolean_mask = np.array(m, dtype=bool)
                t.valid_peak_boolean_mask = np.array(m, dtype=bool)
        else:
            try:
                sut(hv.frequency_domain_window_rejection, h, n=stt["n"], distribution_fn=stt["dist"], distribution_mc=stt["dist"],
                    allow=(ValueError,), what="frequency_domain_window_rejection")
            except Refusal:
                labels.append("fdwr-refused")
            labels.append("fdwr")
        verify(f"state {k} ({stt['how']})")
    if 0.0 in azs and 180.0 in azs:
        labels.append("has-0-and-180")
    if len(set(azs)) < len(azs):
        labels.append("repeated-azimuth")
    return dict(labels=sorted(set(labels)), nontrivial=nontrivial)
