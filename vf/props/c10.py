"""C10 - Preprocessing applies the documented steps in order; windows tile the record."""
import math

import numpy as np
from hypothesis import strategies as st
from scipy import signal

from .. import gen
from ..core import Violation, Refusal, require, sut, close, same_bits, rel_err

ID = "C10"
RULE = ("Cases: 1-3 recordings at an integer sampling rate from {20..1000 Hz} (dt = 1/fs, incl. 75/150/300 Hz), 40-4000 "
        "samples, window length constructed as m/fs (exact multiple) or (m+phi)/fs with phi in [0.05,0.95] so that the "
        "expected k = m never depends on floating-point division, also windows longer than the record; filter corners "
        "(none / high / low / band), detrend in {linear, constant, none, None}, deployed and target orientation. "
        "Non-trivial = at least two windows; distinct by SHA-1 of the case."
        ' Scale pass: one record of q*k+r samples with k = 2^14-3.2e6 sample intervals per window (tiling only).')
ASSUMPTIONS = [
    "scipy.signal.butter/sosfiltfilt/detrend are trusted (shared with the code under test); the oracle fixes only the order of the steps, the slicing and the rotation",
    "window lengths within 0.05 of a sample interval of an integer multiple are not generated (k would be a knife edge)",
]
BUDGET = {"quick": 1600, "thorough": 40000}
SHARDS = {"quick": 8, "thorough": 16}
TECHNIQUE = "property-based testing: independent scipy pipeline in the documented order + exact tiling model"

ANG = st.one_of(st.just(0.0), gen.floats(-720, 720), st.sampled_from([30.0, 90.0, 275.0, 360.0, -45.0]))


@st.composite
def strategy(draw):
    fs = draw(gen.choice(gen.FS_INT))
    nrec = draw(st.sampled_from([1, 1, 2, 3]))
    recs = []
    exp = draw(st.one_of(st.integers(-6, 6), st.just(-10)))
    for _ in range(nrec):
        n = draw(st.one_of(st.integers(40, 400), st.integers(40, 4000)))
        r = draw(gen.recording_recipe(n=n, dt=1.0 / fs, scale_exp=(exp, exp)))
        r["degrees_from_north"] = draw(ANG)
        # metadata inherited from another recording (e.g. when a recording is rebuilt with a corrected orientation):
        # its orientation entries then disagree with the recording's actual orientation
        r["inherited_meta"] = draw(gen.chance(4))
        recs.append(r)
    nmin = min(r["n"] for r in recs)
    mode = draw(st.sampled_from(["exact", "exact", "frac", "frac", "too-long", "none"]))
    if mode == "too-long":
        m = nmin + draw(st.integers(1, 50))
    else:
        m = draw(st.one_of(st.integers(2, max(2, nmin // 2)), st.integers(2, nmin), st.sampled_from([nmin, max(2, nmin - 1)])))
    phi = draw(gen.floats(0.05, 0.95)) if mode == "frac" else 0.0
    wl = None if mode == "none" else (m / fs if phi == 0.0 else (m + phi) / fs)
    if nrec >= 2 and mode in ("exact", "frac") and draw(gen.chance(3)):
        # a list mixing two sampling rates (allowed, with a warning): every recording is windowed with its own time step
        factor = 2.0
        if mode == "frac" and abs(2 * phi - 1.0) < 0.1:
            factor = 1.0
        if factor != 1.0:
            recs[1]["fs_factor"] = factor
            recs[1]["dt"] = 1.0 / (fs * factor)
            recs[1]["n"] = max(recs[1]["n"], int(2 * m + 3))
    fnyq = fs / 2.0
    ftype = draw(st.sampled_from(["none", "none", "high", "low", "band"]))
    lo = draw(gen.log_floats(fnyq * 1e-3, fnyq * 0.4))
    hi = draw(gen.floats(min(fnyq * 0.95, max(lo * 1.5, fnyq * 0.05)), fnyq * 0.95))
    corners = {"none": [None, None], "high": [lo, None], "low": [None, hi], "band": [lo, hi]}[ftype]
    return dict(fs=fs, records=recs, mode=mode, m=m, wl=wl, corners=corners,
                detrend=draw(st.sampled_from(["linear", "constant", "none", None])),
                orient=draw(st.one_of(st.none(), st.just(0.0), ANG)),
                corners_as=draw(st.sampled_from(["list", "tuple"])))


BIG = {"quick": 64, "thorough": 640}


@st.composite
def strategy_big(draw):
    """Deployment-scale tiling: one record of q*k + r samples with k = 2^14 .. 3.2e6 sample intervals per window
    (e.g. 2500 s at 1000 Hz), q in 0..3 whole windows and a remainder r on or next to the window boundary.
    Only the tiling part (no filter / detrend / rotation) is evaluated."""
    case = draw(strategy())
    k = draw(gen.big_size(2 ** 14, 3_200_000))
    q = draw(st.sampled_from([0, 1, 1, 2, 2, 3]))
    r = draw(st.sampled_from([0, 1, 2, k - 1, k - 1, k - 2, k // 2, k // 3]))
    n = max(40, min(q * k + r, 7_000_000))
    rec = case["records"][0]
    rec["n"] = n
    case["records"] = [rec]
    case["m"] = k
    case["mode"] = draw(st.sampled_from(["exact", "frac"])) if n // k >= 1 else "too-long"
    phi = draw(gen.floats(0.05, 0.95)) if case["mode"] == "frac" else 0.0
    case["wl"] = k / case["fs"] if phi == 0.0 else (k + phi) / case["fs"]
    case["big"] = True
    return case


def _rot(ns, ew, delta_deg):
    r = math.radians(delta_deg)
    c, s = math.cos(r), math.sin(r)
    return ns * c + ew * s, -ns * s + ew * c


def _filter(x, corners, fs):
    lo, hi = corners
    if lo is None and hi is None:
        return x
    if lo is None:
        sos = signal.butter(5, hi, "lowpass", fs=fs, output="sos")
    elif hi is None:
        sos = signal.butter(5, lo, "highpass", fs=fs, output="sos")
    else:
        sos = signal.butter(5, [lo, hi], "bandpass", fs=fs, output="sos")
    return signal.sosfiltfilt(sos, x)


def _slices(n, k):
    nwin = n // k
    return [(j * k, min(j * k + k + 1, n)) for j in range(nwin)]


def _detrend(x, kind):
    if kind in (None, "none"):
        return x
    return signal.detrend(x, type=kind)


def _rate(case, r):
    """(sampling rate, whole sample intervals per window) of one recording of the case."""
    fac = r.get("fs_factor", 1.0)
    fs = case["fs"] * fac
    if fac == 1.0 or case["wl"] is None:
        return fs, case["m"]
    return fs, int(math.floor(case["wl"] * fs + 1e-6))


def _reference(comps, dfn, case, order="documented", rate=None):
    """Windows (list of (ns, ew, vt)) from the independent pipeline; order selects alternatives."""
    fs, k = rate if rate is not None else (case["fs"], case["m"])
    ns, ew, vt = comps
    if case["orient"] is not None:
        cur = dfn - 360.0 * math.floor(dfn / 360.0)
        ns, ew = _rot(ns, ew, case["orient"] - cur)
    if order in ("documented", "detrend-before-split"):
        ns, ew, vt = (_filter(c, case["corners"], fs) for c in (ns, ew, vt))
    if order == "detrend-before-split":
        ns, ew, vt = (_detrend(c, case["detrend"]) for c in (ns, ew, vt))
    n = len(ns)
    sl = [(0, n)] if case["wl"] is None else _slices(n, k)
    out = []
    for a, b in sl:
        w = [c[a:b] for c in (ns, ew, vt)]
        if order == "filter-after-split":
            w = [_filter(c, case["corners"], fs) if len(c) > 40 else c for c in w]
        if order != "detrend-before-split":
            w = [_detrend(c, case["detrend"]) for c in w]
        out.append(tuple(w))
    return out


def check_case(case):
    import hvsrpy as hv
    fs, k = case["fs"], case["m"]
    dt = 1.0 / fs
    labels = [case["mode"], f"fs={fs}"]
    if abs(dt * fs - 1.0) > 0 or (1.0 / dt) != fs or case["fs"] in (60, 75, 120, 150, 300):
        labels.append("inexact-dt")
    arrays = [gen.expand_recording_arrays(r) for r in case["records"]]
    corners = list(case["corners"]) if case["corners_as"] == "list" else tuple(case["corners"])

    def build():
        out = []
        for r in case["records"]:
            meta = None
            if r.get("inherited_meta"):
                donor_dfn = case["orient"] if case["orient"] is not None else 0.0
                donor = gen.build_recording(hv, dict(r, degrees_from_north=donor_dfn))
                meta = donor.meta
            out.append(gen.build_recording(hv, r, meta=meta))
        return out

    def settings(plain=False):
        if plain:
            return hv.HvsrPreProcessingSettings(orient_to_degrees_from_north=None, filter_corner_frequencies_in_hz=[None, None],
                                                window_length_in_seconds=case["wl"], detrend=None)
        return hv.HvsrPreProcessingSettings(orient_to_degrees_from_north=case["orient"], filter_corner_frequencies_in_hz=corners,
                                            window_length_in_seconds=case["wl"], detrend=case["detrend"])

    nmin = min(len(a[0]) for a in arrays)
    rates = [_rate(case, r) for r in case["records"]]          # (fs, k) per recording
    if any(r.get("fs_factor", 1.0) != 1.0 for r in case["records"]):
        labels.append("mixed-sampling-rates")
    too_long = case["wl"] is not None and any(len(a[0]) // kr < 1 for a, (_, kr) in zip(arrays, rates))

    # ---- 1. tiling: no filter / detrend / orientation ------------------------
    try:
        wins = sut(hv.preprocess, build(), settings(plain=True), allow=(ValueError,), what="preprocess")
    except Refusal as r:
        if too_long:
            labels.append("refused-too-long")
            return dict(labels=labels, nontrivial=False)
        raise Violation(f"preprocess refused a {case['wl']!r} s window ({k} intervals at {fs} Hz) on records of {[len(a[0]) for a in arrays]} samples: {r.exc}")
    require(not too_long, f"window of {k} intervals accepted for a record of {nmin} samples (no whole window fits)")
    expected = []
    for (ns, ew, vt), r, (fsr, kr) in zip(arrays, case["records"], rates):
        n = len(ns)
        sl = [(0, n)] if case["wl"] is None else _slices(n, kr)
        for (a, b) in sl:
            expected.append((ns[a:b], ew[a:b], vt[a:b], r["degrees_from_north"], 1.0 / fsr, kr))
    if len(wins) != len(expected):
        raise Violation(f"{fs} Hz, window length {case['wl']!r} s (= {k}{'+phi' if case['mode'] == 'frac' else ''} sample intervals), records of "
                        f"{[len(a[0]) for a in arrays]} samples: {len(wins)} windows returned, expected {len(expected)} (floor(N/k) each)")
    for j, (w, (ens, eew, evt, dfn, dtr, kr)) in enumerate(zip(wins, expected)):
        if w.ns.n_samples != len(ens):
            raise Violation(f"{1.0 / dtr:.6g} Hz, window length {case['wl']!r} s: window {j} has {w.ns.n_samples} samples, expected k+1 = {len(ens)} "
                            f"(k = {kr} whole sample intervals of that recording)")
        if not (same_bits(w.ns.amplitude, ens) and same_bits(w.ew.amplitude, eew) and same_bits(w.vt.amplitude, evt)):
            raise Violation(f"window {j} does not carry the record's samples [j*k : j*k+k+1] unaltered (k={kr}, fs={1.0 / dtr:.6g})")
        require(w.ns.dt_in_seconds == dtr and w.ew.dt_in_seconds == dtr and w.vt.dt_in_seconds == dtr, f"window {j}: time step changed")
        require(abs(((w.degrees_from_north - dfn + 180) % 360) - 180) < 1e-9, f"window {j}: orientation {w.degrees_from_north} != record's {dfn}")
    nwin_total = len(wins)
    if case["wl"] is not None:
        for a, (_, kr) in zip(arrays, rates):
            n = len(a[0])
            tail = n - ((n // kr) * kr + 1)
            require(tail < kr, f"discarded tail of {tail} samples is not shorter than one window (k={kr})")

    if case.get("big"):
        labels.append("big-k-2^%d" % int(math.log2(k)))
        if nmin % k == k - 1:
            labels.append("big-one-short-of-another-window")
        return dict(labels=labels, nontrivial=nwin_total >= 1)

    # ---- 2. documented order of steps ------------------------------------------
    got = sut(hv.preprocess, build(), settings(), what="preprocess")
    ref, alt1, alt2 = [], [], []
    for comps, r, rate in zip(arrays, case["records"], rates):
        ref += _reference(comps, r["degrees_from_north"], case, rate=rate)
        alt1 += _reference(comps, r["degrees_from_north"], case, "filter-after-split", rate=rate)
        alt2 += _reference(comps, r["degrees_from_north"], case, "detrend-before-split", rate=rate)
    require(len(got) == len(ref), f"{len(got)} windows from the full pipeline, expected {len(ref)}")
    scale = max(max(float(np.max(np.abs(c))) for c in a) for a in arrays)
    for j, (w, e) in enumerate(zip(got, ref)):
        for name, have, want in zip(("ns", "ew", "vt"), (w.ns.amplitude, w.ew.amplitude, w.vt.amplitude), e):
            if len(have) != len(want) or not close(have, want, rtol=1e-9, atol=1e-11 * scale):
                err = float(np.max(np.abs(have - want))) / scale if len(have) == len(want) else float("inf")
                raise Violation(f"preprocess(orient={case['orient']}, filter={case['corners']}, window={case['wl']!r} s, detrend={case['detrend']}) at {fs} Hz: "
                                f"window {j} component {name} differs from orient -> filter whole record -> split -> detrend each window "
                                f"(max error {err:.3g} of the signal scale)")
        if case["orient"] is not None:
            require(abs(((w.degrees_from_north - case["orient"] + 180) % 360) - 180) < 1e-9,
                    f"window {j} reports orientation {w.degrees_from_north}, target was {case['orient']}")

    def differs(alt):
        return any(len(x) != len(y) or float(np.max(np.abs(x - y))) > 1e-6 * scale for e, a in zip(ref, alt) for x, y in zip(e, a))
    if differs(alt1) or differs(alt2):
        labels.append("order-sensitive")
    if case["orient"] is not None and any(abs(((r["degrees_from_north"] - case["orient"] + 180) % 360) - 180) > 1 for r in case["records"]):
        labels.append("rotated")
    if any(r.get("inherited_meta") for r in case["records"]):
        labels.append("inherited-meta")
    if any(len(a[0]) % k == 0 for a in arrays) and case["wl"] is not None:
        labels.append("last-window-short")
    return dict(labels=labels, nontrivial=nwin_total >= 2)
