"""C20 - Plots and summary tables are read-only and show the object's state."""
import math

import numpy as np
from hypothesis import strategies as st

from .. import gen
from ..core import Violation, Refusal, require, sut, close, same_bits, snap, snap_diff
from . import c06

ID = "C20"
RULE = ("Cases: a traditional (3-9 windows), azimuthal (1-4 azimuths x 2-6 windows) or diffuse-field result in a drawn "
        "accept/reject state (>= 2 accepted windows and peaks, every azimuth >= 1; for traditional results the peak mask may "
        "reject more than the window mask), matching recordings, drawn boolean plotting options and distributions, and one of "
        "the functions plot_single_panel_hvsr_curves, plot_seismic_recordings_3c, plot_pre_and_post_rejection, "
        "summarize_hvsr_statistics, plot_azimuthal_contour_2d / _3d, plot_azimuthal_summary (Agg backend, figures closed after "
        "each case). Non-trivial = at least one rejected window or peak exists; distinct by SHA-1 of the case."
        ' For azimuthal results one member may be refined alone (own search range, e.g. holding only a common second bump).')
ASSUMPTIONS = [
    "what is drawn is read from the matplotlib artists of the returned axes (line data, styles taken from the module's DEFAULT_KWARGS), not from pixels",
    "hvsrpy.postprocessing.display is replaced inside the harness process to capture the summary Styler",
    "the period row's +-1 columns are not asserted (only its median and log-standard deviation, as the property states)",
]
BUDGET = {"quick": 960, "thorough": 16000}
SHARDS = {"quick": 16, "thorough": 16}
TECHNIQUE = "property-based testing: bit-exact snapshots before/after each plotting call + artist-level comparison with the object's statistics"

FUNCS = ["single_panel", "single_panel", "recordings", "pre_post", "summary", "contour_2d", "contour_3d", "az_summary"]


@st.composite
def strategy(draw):
    kind = draw(gen.choice(["traditional", "azimuthal", "traditional", "azimuthal", "diffuse_field"]))
    func = draw(gen.choice(FUNCS))
    if func in ("contour_2d", "contour_3d", "az_summary"):
        kind = "azimuthal"
    if func in ("pre_post",):
        kind = "traditional"
    if func == "recordings" and kind == "diffuse_field":
        kind = "traditional"
    nf = draw(st.integers(20, 50))
    f0 = draw(gen.floats(0.1, 0.5))
    f = [float(v) for v in np.geomspace(f0, f0 * draw(gen.floats(30, 150)), nf)]
    naz = draw(st.integers(1, 4)) if kind == "azimuthal" else 1
    groups, masks, pmasks = [], [], []
    for _ in range(naz):
        nwin = draw(st.integers(2, 6)) if kind == "azimuthal" else draw(st.integers(3, 9))
        groups.append(dict(nwin=nwin, seed=draw(gen.seeds32), centre=draw(gen.floats(0.3, 0.7)), sigma=draw(gen.log_floats(0.02, 0.1)),
                           outlier_frac=0.0, outlier_sigma=0.1, bimodal=0.0, bimodal_frac=0.3, second_bump=draw(st.booleans())))
        m = [draw(st.sampled_from([True, True, False])) for _ in range(nwin)]
        if sum(m) < (2 if kind != "azimuthal" else 1):
            m = [True] * nwin
        masks.append(m)
        pm = list(m)
        if kind == "traditional" and draw(gen.chance(3)):
            idx = [i for i, v in enumerate(pm) if v]
            if len(idx) > 2:
                pm[idx[draw(st.integers(0, len(idx) - 1))]] = False
        pmasks.append(pm)
    if kind == "azimuthal" and sum(sum(m) for m in masks) < 2:
        masks = [[True] * len(m) for m in masks]
        pmasks = [list(m) for m in masks]
    azs = sorted(draw(st.lists(st.sampled_from([0.0, 20.0, 45.0, 60.0, 90.0, 120.0, 135.0, 160.0]), min_size=naz, max_size=naz, unique=True)))
    opts = {k: draw(st.booleans()) for k in ("plot_valid_curves", "plot_invalid_curves", "plot_mean_curve", "plot_frequency_std",
                                             "plot_peak_mean_curve", "plot_peak_individual_valid_curves", "plot_peak_individual_invalid_curves")}
    return dict(kind=kind, func=func, f=f, groups=groups, masks=masks, pmasks=pmasks, azimuths=azs, opts=opts,
                dist_mc=draw(st.sampled_from(["lognormal", "normal"])), dist_fn=draw(st.sampled_from(["lognormal", "normal"])),
                normalize=draw(st.booleans()), by_az=draw(st.booleans()), range=draw(st.sampled_from([None, None, "bounded", "upper-part"])),
                kw=draw(st.sampled_from([None, None, {"height-cap": 0.6}, {"height-cap-mean": 0.9}, {"height-cap-mean": 0.8}, {"prominence": 1.5}, {"width": 3}])),
                two_peaks=dict(centre=draw(gen.floats(0.72, 0.85)), ratio=draw(gen.floats(0.45, 0.7))),
                # one azimuth refined on its own afterwards (az.hvsrs[k].update_peaks_bounded): members then differ in their search range
                member_range=draw(st.one_of(st.none(), st.tuples(st.integers(0, 5), st.sampled_from(["upper-half", "lower-half", "narrow", "second-bump", "second-bump"])))))


BIG = {"quick": 8, "thorough": 64}


@st.composite
def strategy_big(draw):
    """Results of long deployments: 100 .. 800 windows (per azimuth, at most 3 azimuths) with seeded accept masks."""
    case = draw(strategy().filter(lambda c: c["kind"] != "diffuse_field" and c["func"] != "recordings"))
    naz = min(len(case["groups"]), 3)
    nwin = draw(gen.big_size(100, 800))
    g = np.random.Generator(np.random.PCG64(draw(gen.seeds32)))
    case["groups"] = case["groups"][:naz]
    case["azimuths"] = case["azimuths"][:naz]
    masks = []
    for grp in case["groups"]:
        grp["nwin"] = nwin
        m = (g.random(nwin) > 0.2).tolist()
        masks.append(m)
    case["masks"] = masks
    case["pmasks"] = [list(m) for m in masks]
    case["big"] = True
    return case


def _build(hv, case):
    f = np.array(case["f"], dtype=float)
    groups = [c06.expand_group(g, f) for g in case["groups"]]
    tp = case.get("two_peaks")
    mr_ = case.get("member_range")
    if tp and ((case.get("kw") and "height-cap-mean" in case["kw"]) or (mr_ and mr_[1] == "second-bump" and case["kind"] == "azimuthal") or case["range"] == "upper-part"):
        # a second, lower bump common to all windows: the mean curve then has two clear peaks
        x = np.linspace(0, 1, len(f))
        groups = [A + tp["ratio"] * (A.max(axis=1, keepdims=True) - 1.0) * np.exp(-0.5 * ((x - tp["centre"]) / 0.04) ** 2) for A in groups]
    if case["kind"] == "traditional":
        obj = hv.HvsrTraditional(f, groups[0], meta={"site": "x"})
    elif case["kind"] == "diffuse_field":
        obj = hv.HvsrDiffuseField(f, groups[0][0], meta={"site": "x"})
    else:
        obj = hv.HvsrAzimuthal([hv.HvsrTraditional(f, A) for A in groups], case["azimuths"], meta={"site": "x"})
    kw = case.get("kw")
    if kw and "height-cap-mean" in kw:
        ref_rows = groups[0] if case["kind"] != "diffuse_field" else groups[0][:1]
        kw = {"height": [None, kw["height-cap-mean"] * float(np.max(np.exp(np.mean(np.log(ref_rows), axis=0))))]}
    elif kw and "height-cap" in kw:
        top = float(np.max([np.max(g) for g in groups])) if case["kind"] != "diffuse_field" else float(np.max(groups[0][0]))
        kw = {"height": [None, kw["height-cap"] * top]}      # scipy: (min, max) admissible peak height
    if case["range"] in ("bounded", "upper-part") or kw:
        rng = (float(f[2]), float(f[-3])) if case["range"] == "bounded" else (None, None)
        if case["range"] == "upper-part":
            # a range that holds only the lower, common second bump: the peaks in range differ from the curves' global maxima
            rng = (float(f[max(1, int((tp["centre"] - 0.08) * (len(f) - 1)))]), float(f[-2]))
        obj.update_peaks_bounded(rng, kw)
    members = obj.hvsrs if case["kind"] == "azimuthal" else ([obj] if case["kind"] == "traditional" else [])
    mr = case.get("member_range")
    if mr and case["kind"] == "azimuthal" and len(members) >= 2:
        k = 1 + mr[0] % (len(members) - 1)
        n_ = len(f)
        lo_i, hi_i = {"upper-half": (n_ // 2, n_ - 2), "lower-half": (1, n_ // 2), "narrow": (n_ // 3, 2 * n_ // 3),
                      # only the lower, common bump lies inside: this azimuth's peak then differs from the peak in the others' range
                      "second-bump": (max(1, int((tp["centre"] - 0.08) * (n_ - 1))), n_ - 2)}[mr[1]]
        members[k].update_peaks_bounded((float(f[lo_i]), float(f[hi_i])), kw)

    def apply_masks(all_with_peak=False):
        for t, m, pm in zip(members, case["masks"], case["pmasks"]):
            has = ~np.isnan(t._main_peak_frq)
            if all_with_peak:
                t.valid_window_boolean_mask = has.copy()
                t.valid_peak_boolean_mask = has.copy()
            elif case["kind"] == "azimuthal":
                # the library keeps both masks equal on azimuthal members (a window without a peak is rejected)
                both = np.array(m, dtype=bool) & has
                t.valid_window_boolean_mask = both.copy()
                t.valid_peak_boolean_mask = both.copy()
            else:
                t.valid_window_boolean_mask = np.array(m, dtype=bool)
                t.valid_peak_boolean_mask = np.array(pm, dtype=bool) & has

    def in_domain():
        """>= 2 accepted windows and peaks (every azimuth >= 1) and a mean-curve peak for both distributions."""
        if not members:
            return True
        if any(int(np.sum(t.valid_window_boolean_mask)) < 1 or int(np.sum(t.valid_peak_boolean_mask)) < 1 for t in members):
            return False
        if sum(int(np.sum(t.valid_window_boolean_mask)) for t in members) < 2 or sum(int(np.sum(t.valid_peak_boolean_mask)) for t in members) < 2:
            return False
        if case["kind"] == "traditional" and (int(np.sum(obj.valid_window_boolean_mask)) < 2 or int(np.sum(obj.valid_peak_boolean_mask)) < 2):
            return False
        try:
            for d in ("lognormal", "normal"):
                obj.mean_curve_peak(d)
                if not np.all(np.isfinite(obj.std_curve(d))):
                    return False
            if case["kind"] == "azimuthal":
                for d in ("lognormal", "normal"):
                    obj.mean_curve_peak_by_azimuth(d)          # the contour plots mark the peak of every azimuth's mean curve
            if case["func"] == "pre_post":
                # the "before" panel shows every window as accepted: that state must have a mean-curve peak too
                keep = (obj.valid_window_boolean_mask.copy(), obj.valid_peak_boolean_mask.copy())
                try:
                    obj.valid_window_boolean_mask = np.ones_like(keep[0])
                    obj.valid_peak_boolean_mask = np.ones_like(keep[1])
                    for d in ("lognormal", "normal"):
                        obj.mean_curve_peak(d)
                finally:
                    obj.valid_window_boolean_mask, obj.valid_peak_boolean_mask = keep
        except (ValueError, ZeroDivisionError):
            return False
        return True

    apply_masks()
    if not in_domain():
        apply_masks(all_with_peak=True)
    if not in_domain():
        # the drawn find_peaks options / range leave too few peaks: fall back to the plain full-range state
        obj.update_peaks_bounded((None, None), None)
        apply_masks()
        if not in_domain():
            apply_masks(all_with_peak=True)
    return obj, members, f


def _lines(ax):
    out = []
    for ln in ax.get_lines():
        out.append(dict(x=np.asarray(ln.get_xdata(), dtype=float), y=np.asarray(ln.get_ydata(), dtype=float), color=ln.get_color(),
                        lw=float(ln.get_linewidth()), ls=ln.get_linestyle(), marker=ln.get_marker(), mfc=ln.get_markerfacecolor(), obj=ln))
    return out


def _rows_match(lines, rows, what, f):
    """multiset of line y-data == rows (bit for bit), x-data == frequency."""
    ys = sorted(tuple(l["y"].tolist()) for l in lines)
    want = sorted(tuple(np.asarray(r, dtype=float).tolist()) for r in rows)
    if ys != want:
        raise Violation(f"{what}: {len(ys)} lines drawn for {len(want)} windows" + ("" if len(ys) != len(want) else "; the line data are not those windows' curves"))
    for l in lines:
        require(same_bits(l["x"], f), f"{what}: a line is not drawn against the object's frequency vector")


def _check_3d_markers(out, obj, case):
    """The 3-D azimuthal plot draws the peak of every azimuth's mean curve (first azimuth repeated at 180 degrees)."""
    ax = out[1] if isinstance(out, tuple) else out
    if isinstance(ax, (tuple, list)):
        ax = ax[0]
    pts = []
    for coll in list(getattr(ax, "collections", [])):
        off = getattr(coll, "_offsets3d", None)
        if off is not None and len(off[0]):
            pts.append(tuple(np.asarray(v, dtype=float) for v in off))
    for line in ax.get_lines():
        if line.get_marker() not in (None, "None", "", " "):
            d3 = getattr(line, "_verts3d", None)
            if d3 is not None:
                pts.append(tuple(np.asarray(v, dtype=float) for v in d3))
    if not case["by_az"]:
        require(not pts, "3-D azimuthal plot: per-azimuth peak markers drawn although disabled")
        return
    fp, ap = obj.mean_curve_peak_by_azimuth(case["dist_mc"])
    want_f = np.array([*fp, fp[0]], dtype=float)
    want_a = np.array([*ap, ap[0]], dtype=float)
    want_az = np.array([*obj.azimuths, 180.0], dtype=float)
    def same_set(p):
        # x = log10(frequency), y = azimuth, z = peak amplitude (the library lifts the markers 5 % above the surface)
        if len(p[0]) != len(want_f):
            return False
        a = sorted(zip(np.round(p[0], 12).tolist(), np.round(p[1], 12).tolist(), p[2].tolist()))
        b = sorted(zip(np.round(np.log10(want_f), 12).tolist(), np.round(want_az, 12).tolist(), want_a.tolist()))
        return all(x1 == x2 and y1 == y2 and z2 * (1 - 1e-12) <= z1 <= 1.06 * z2 for (x1, y1, z1), (x2, y2, z2) in zip(a, b))
    ok = any(same_set(p) for p in pts)
    if not ok:
        raise Violation(f"3-D azimuthal plot: no marker set at the peaks of the azimuths' mean curves {np.round(want_f, 4).tolist()} "
                        f"(drawn: {[np.round(p[0], 4).tolist() for p in pts][:2]} / {[np.round(p[1], 4).tolist() for p in pts][:2]})")


def _check_single_panel(hv, pp, ax, obj, members, f, case, opts, what="single panel", all_accepted=False):
    K = pp.DEFAULT_KWARGS
    lines = _lines(ax)
    val = K["individual_valid_hvsr_curve"]
    inv = K["individual_invalid_hvsr_curve"]
    thin = [l for l in lines if abs(l["lw"] - val["linewidth"]) < 1e-9 and l["marker"] in ("None", None, "")]
    acc = [l for l in thin if l["color"] == val["color"]]
    rej = [l for l in thin if l["color"] == inv["color"]]
    kind = case["kind"]
    if kind != "diffuse_field":
        w_rows = [t.amplitude[i] for t in members for i in range(t.n_curves) if (all_accepted or t.valid_window_boolean_mask[i])]
        r_rows = [t.amplitude[i] for t in members for i in range(t.n_curves) if not (all_accepted or t.valid_window_boolean_mask[i])]
        _rows_match(acc, w_rows if opts["plot_valid_curves"] else [], f"{what}: accepted-style lines", f)
        _rows_match(rej, r_rows if opts["plot_invalid_curves"] else [], f"{what}: rejected-style lines", f)
    mean_style = K["mean_hvsr_curve"]
    solid = [l for l in lines if abs(l["lw"] - mean_style["linewidth"]) < 1e-9 and l["ls"] == "-" and l["marker"] in ("None", None, "")]
    dashed = [l for l in lines if abs(l["lw"] - mean_style["linewidth"]) < 1e-9 and l["ls"] == "--"]
    if opts["plot_mean_curve"]:
        require(len(solid) == 1, f"{what}: {len(solid)} mean-style lines drawn")
        mc = np.asarray(obj.mean_curve(case["dist_mc"]) if kind != "diffuse_field" else obj.mean_curve(), dtype=float)
        require(same_bits(solid[0]["y"], mc) and same_bits(solid[0]["x"], f), f"{what}: the mean-style line is not mean_curve({case['dist_mc']})")
        if kind != "diffuse_field":
            require(len(dashed) == 2, f"{what}: {len(dashed)} dashed +-1 std lines drawn")
            want = sorted([tuple(np.asarray(obj.nth_std_curve(+1, case["dist_mc"])).tolist()), tuple(np.asarray(obj.nth_std_curve(-1, case["dist_mc"])).tolist())])
            got = sorted(tuple(l["y"].tolist()) for l in dashed)
            require(got == want, f"{what}: the dashed lines are not the +1 and -1 standard deviation curves ({case['dist_mc']})")
    else:
        require(len(solid) == 0 and len(dashed) == 0, f"{what}: mean/std lines drawn although plot_mean_curve=False")
    # peak markers
    dia = [l for l in lines if l["marker"] == "D"]
    if opts["plot_peak_mean_curve"]:
        require(len(dia) >= 1, f"{what}: no mean-curve peak marker")
        try:
            pf, pa = obj.mean_curve_peak(case["dist_mc"])
        except ValueError:
            pf = pa = None
        for l in dia:
            require(len(l["x"]) == 1 and l["x"][0] == float(pf) and l["y"][0] == float(pa), f"{what}: the diamond marker ({l['x']}, {l['y']}) is not mean_curve_peak ({pf}, {pa})")
    else:
        require(len(dia) == 0, f"{what}: a mean-curve peak marker is drawn although plot_peak_mean_curve=False")
    if kind != "diffuse_field":
        circ = [l for l in lines if l["marker"] == "o"]
        good = [l for l in circ if l["mfc"] == K["peak_individual_valid_hvsr_curve"]["markerfacecolor"]]
        bad = [l for l in circ if l["mfc"] == K["peak_individual_invalid_hvsr_curve"]["markerfacecolor"]]

        def pts(ls):
            return sorted((float(x), float(y)) for l in ls for x, y in zip(l["x"], l["y"]))
        want_good = sorted((float(t._main_peak_frq[i]), float(t._main_peak_amp[i])) for t in members for i in range(t.n_curves)
                           if (all_accepted or t.valid_peak_boolean_mask[i]))
        want_bad = sorted((float(t._main_peak_frq[i]), float(t._main_peak_amp[i])) for t in members for i in range(t.n_curves)
                          if not (all_accepted or t.valid_peak_boolean_mask[i]))
        want_bad = [p for p in want_bad if not math.isnan(p[0])] if False else want_bad
        g_, b_ = pts(good), pts(bad)
        if g_ != (want_good if opts["plot_peak_individual_valid_curves"] else []):
            raise Violation(f"{what}: accepted-style peak markers {len(g_)} drawn, the object has {len(want_good)} accepted peaks (or they are at other positions)")
        nb = [p for p in b_ if not math.isnan(p[0])]
        wb = [p for p in want_bad if not math.isnan(p[0])]
        if nb != (wb if opts["plot_peak_individual_invalid_curves"] else []):
            raise Violation(f"{what}: {len(nb)} rejected-style peak markers drawn, the object has {len(wb)} rejected peaks (option plot_peak_individual_invalid_curves={opts['plot_peak_individual_invalid_curves']})")
        # filled band
        polys = [p for p in ax.patches]
        if opts["plot_frequency_std"]:
            require(len(polys) == 1, f"{what}: {len(polys)} filled bands drawn")
            xs = np.asarray(polys[0].get_xy())[:, 0]
            lo, hi = float(obj.nth_std_fn_frequency(-1, case["dist_fn"])), float(obj.nth_std_fn_frequency(+1, case["dist_fn"]))
            require(close(xs.min(), lo, rtol=1e-12) and close(xs.max(), hi, rtol=1e-12), f"{what}: the band spans [{xs.min()}, {xs.max()}], fn -+1 std ({case['dist_fn']}) is [{lo}, {hi}]")
        else:
            require(len(polys) == 0, f"{what}: a band is drawn although plot_frequency_std=False")


def check_case(case):
    import matplotlib
    matplotlib.use("Agg")
    import matplotlib.pyplot as plt
    import hvsrpy as hv
    import hvsrpy.postprocessing as pp
    obj, members, f = _build(hv, case)
    kind, func = case["kind"], case["func"]
    labels = [func, kind] + (["big-%d00-windows" % (len(case["masks"][0]) // 100)] if case.get("big") else []) + (["member-refined-alone"] if case.get("member_range") and kind == "azimuthal" and len(members) >= 2 else [])
    opts = case["opts"]
    nwin = members[0].n_curves if members else 1
    g = np.random.Generator(np.random.PCG64(case["groups"][0]["seed"]))
    recs = [hv.SeismicRecording3C(*(hv.TimeSeries(g.standard_normal(60) * (1 + i), 0.01) for _ in range(3))) for i in range(nwin)]
    before_obj = snap(obj)
    before_recs = snap(recs)
    captured = []
    old_display = pp.display
    pp.display = lambda s: captured.append(s)
    try:
        if func == "single_panel":
            fig, ax = sut(hv.plot_single_panel_hvsr_curves, obj, distribution_mc=case["dist_mc"], distribution_fn=case["dist_fn"], what="plot_single_panel_hvsr_curves", **opts)
            _check_single_panel(hv, pp, ax, obj, members, f, case, opts)
        elif func == "recordings":
            mask = members[0].valid_window_boolean_mask if members else None
            fig, axs = sut(hv.plot_seismic_recordings_3c, recs, valid_window_boolean_mask=mask, normalize=case["normalize"], what="plot_seismic_recordings_3c")
            K = pp.DEFAULT_KWARGS
            for ax, comp in zip(axs, ("ns", "ew", "vt")):
                ls = _lines(ax)
                require(len(ls) == len(recs), f"{len(ls)} waveform lines for {len(recs)} recordings")
                for l, r, ok in zip(ls, recs, (mask if mask is not None else [True] * len(recs))):
                    want = K["individual_valid_hvsr_curve" if ok else "individual_invalid_hvsr_curve"]["color"]
                    require(l["color"] == want, f"waveform of a {'kept' if ok else 'rejected'} window drawn with colour {l['color']}")
                    y = getattr(r, comp).amplitude
                    scale = max(float(np.max(np.abs(getattr(q, c).amplitude))) for q in recs for c in ("ns", "ew", "vt")) if case["normalize"] else 1.0
                    require(close(l["y"], y / scale, rtol=1e-12), "waveform line is not the recording's samples")
        elif func == "pre_post":
            fig, axs = sut(hv.plot_pre_and_post_rejection, recs, obj, distribution_mc=case["dist_mc"], distribution_fn=case["dist_fn"], what="plot_pre_and_post_rejection")
            full = dict(plot_valid_curves=True, plot_invalid_curves=False, plot_mean_curve=True, plot_frequency_std=True, plot_peak_mean_curve=True,
                        plot_peak_individual_valid_curves=True, plot_peak_individual_invalid_curves=False)
            after = dict(full, plot_invalid_curves=True, plot_peak_individual_invalid_curves=True)
            _check_single_panel(hv, pp, axs[3], obj, members, f, case, after, what="pre/post figure, 'after' panel")
            # the 'before' panel shows every window as accepted: statistics of an all-accepted twin
            twin = hv.HvsrTraditional(f, members[0].amplitude)
            twin.update_peaks_bounded(obj._search_range_in_hz, dict(obj._find_peaks_kwargs) if obj._find_peaks_kwargs else None)
            has = ~np.isnan(twin._main_peak_frq)
            twin.valid_window_boolean_mask = np.ones(twin.n_curves, dtype=bool)
            twin.valid_peak_boolean_mask = np.ones(twin.n_curves, dtype=bool)
            if has.all():
                _check_single_panel(hv, pp, axs[1], twin, [twin], f, case, full, what="pre/post figure, 'before' panel")
            K = pp.DEFAULT_KWARGS
            for ax in (axs[0], axs[2], axs[4]):
                for l, ok in zip(_lines(ax), members[0].valid_window_boolean_mask):
                    want = K["individual_valid_hvsr_curve" if ok else "individual_invalid_hvsr_curve"]["color"]
                    require(l["color"] == want, "pre/post figure: waveform colour does not follow the window mask")
        elif func == "summary":
            import contextlib, io
            with contextlib.redirect_stdout(io.StringIO()):
                sut(hv.summarize_hvsr_statistics, obj, distribution_mc=case["dist_mc"], distribution_fn=case["dist_fn"], what="summarize_hvsr_statistics")
            if kind != "diffuse_field":
                require(len(captured) == 1, "summary table was not displayed exactly once")
                sty = captured[0]
                d = np.asarray(sty.data.values, dtype=float)
                dist = case["dist_fn"]
                fn_row = [obj.mean_fn_frequency(dist), obj.std_fn_frequency(dist), obj.nth_std_fn_frequency(-1, dist), obj.nth_std_fn_frequency(+1, dist)]
                an_row = [obj.mean_fn_amplitude(dist), obj.std_fn_amplitude(dist), obj.nth_std_fn_amplitude(-1, dist), obj.nth_std_fn_amplitude(+1, dist)]
                require(close(d[0], fn_row, rtol=1e-12), f"summary table: fn row {d[0].tolist()} is not the object's fn statistics {fn_row}")
                require(close(d[2], an_row, rtol=1e-12), f"summary table: amplitude row {d[2].tolist()} is not the object's statistics {an_row}")
                if dist == "lognormal":
                    pf = np.concatenate([np.atleast_1d(p) for p in (obj.peak_frequencies if kind == "azimuthal" else [obj.peak_frequencies])])
                    pf = pf[~np.isnan(pf)]
                    require(close(d[1][0], 1.0 / float(obj.mean_fn_frequency(dist)), rtol=1e-12) and close(d[1][1], float(obj.std_fn_frequency(dist)), rtol=1e-12),
                            f"summary table: period row {d[1].tolist()} does not hold 1/median and the log-standard deviation")
                    if kind == "traditional":
                        require(close(d[1][0], math.exp(np.mean(np.log(1.0 / pf))), rtol=1e-10) and close(d[1][1], np.std(np.log(1.0 / pf), ddof=1), rtol=1e-9, atol=1e-13),
                                "summary table: period row is not the lognormal median / log-std of the reciprocal peak frequencies")
                mf, ma = obj.mean_curve_peak(case["dist_mc"])
                cap = str(getattr(sty, "caption", ""))
                require(f"{mf:.3f}" in cap and f"{ma:.3f}" in cap, f"summary caption {cap!r} does not carry the mean-curve peak ({mf:.3f}, {ma:.3f})")
        elif func == "contour_2d":
            out = sut(hv.plot_azimuthal_contour_2d, obj, distribution_mc=case["dist_mc"], plot_mean_curve_peak_by_azimuth=case["by_az"], what="plot_azimuthal_contour_2d")
            fig, (ax, cax) = out
            sq = [l for l in _lines(ax) if l["marker"] == "s"]
            if case["by_az"]:
                fp, _ = obj.mean_curve_peak_by_azimuth(case["dist_mc"])
                require(len(sq) == 1 and same_bits(sq[0]["x"], fp) and sq[0]["y"].tolist() == [float(a) for a in obj.azimuths],
                        "2-D azimuthal plot: markers are not at mean_curve_peak_by_azimuth / the object's azimuths")
            else:
                require(len(sq) == 0, "2-D azimuthal plot: per-azimuth peak markers drawn although disabled")
        elif func == "contour_3d":
            out3 = sut(hv.plot_azimuthal_contour_3d, obj, distribution_mc=case["dist_mc"], plot_mean_curve_peak_by_azimuth=case["by_az"], what="plot_azimuthal_contour_3d")
            _check_3d_markers(out3, obj, case)
        elif func == "az_summary":
            fig, (ax0, ax1, ax2) = sut(hv.plot_azimuthal_summary, obj, distribution_mc=case["dist_mc"], distribution_fn=case["dist_fn"],
                                       plot_mean_curve_peak_by_azimuth=case["by_az"], what="plot_azimuthal_summary", **opts)
            o2 = dict(opts)
            # the summary passes plot_peak_mean_curve=plot_mean_curve to the panel and draws the peak again when plot_peak_mean_curve is set
            o2["plot_peak_mean_curve"] = opts["plot_mean_curve"] or opts["plot_peak_mean_curve"]
            _check_single_panel(hv, pp, ax2, obj, members, f, case, o2, what="azimuthal summary, curve panel")
            sq = [l for l in _lines(ax1) if l["marker"] == "s"]
            if case["by_az"]:
                fp, _ = obj.mean_curve_peak_by_azimuth(case["dist_mc"])
                require(len(sq) == 1 and same_bits(sq[0]["x"], fp) and sq[0]["y"].tolist() == [float(a) for a in obj.azimuths],
                        "azimuthal summary, 2-D panel: markers are not at mean_curve_peak_by_azimuth / the object's azimuths")
            else:
                require(len(sq) == 0, "azimuthal summary, 2-D panel: per-azimuth peak markers drawn although disabled")
            _check_3d_markers((fig, ax0), obj, case)
    finally:
        pp.display = old_display
        plt.close("all")
    after_obj = snap(obj)
    if after_obj != before_obj:
        raise Violation(f"{func} changed the {type(obj).__name__} it was given: {snap_diff(before_obj, after_obj)}")
    after_recs = snap(recs)
    if after_recs != before_recs:
        raise Violation(f"{func} changed the recordings it was given: {snap_diff(before_recs, after_recs)}")
    rejected = any((~np.asarray(t.valid_window_boolean_mask)).any() or (~np.asarray(t.valid_peak_boolean_mask)).any() for t in members)
    if any(not np.array_equal(t.valid_window_boolean_mask, t.valid_peak_boolean_mask) for t in members):
        labels.append("peak-mask-differs")
    return dict(labels=labels, nontrivial=bool(rejected))
