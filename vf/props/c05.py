"""C05 - Statistics are the stated estimators over exactly the accepted windows."""
import math

import numpy as np
from hypothesis import strategies as st

from .. import gen, oracle
from ..core import Violation, Refusal, require, sut, close, same_bits, rel_err
from . import c08

ID = "C05"
RULE = ("Cases: a curve set of 3-12 windows on a drawn grid (some windows deliberately without a peak) and a history of 1-7 "
        "operations on one HvsrTraditional: peak-range updates, frequency_domain_window_rejection, manual rejection (both "
        "masks False), time-domain rejection coupling (maximum-value / STA-LTA rejection with hvsr=..., which overwrites both "
        "masks). After every operation every statistic (both distributions, also spelled 'log-normal') is compared with the "
        "textbook estimator over the accepted windows. Non-trivial = a state with >= 1 rejected window whose inclusion would "
        "change the mean curve by > 1e-6 was checked; distinct by SHA-1 of the case."
        ' Search limits include inf/1e20/0/-inf. Scale pass: 2^18-2^23 amplitudes (up to 40 000 windows) tiled from the drawn curves, short histories with seeded rejections, final state verified.')
ASSUMPTIONS = [
    "accept/reject masks are read from the object after each operation (C06/C13 decide whether the masks are right)",
    "states with fewer than two accepted windows or two accepted peaks are outside the property and only checked for documented refusals",
    "numpy mean/std/cov (ddof=1) are the textbook estimators; comparison rtol 1e-10",
]
BUDGET = {"quick": 1600, "thorough": 40000}
SHARDS = {"quick": 8, "thorough": 16}
TECHNIQUE = "model-based property testing over operation histories: textbook numpy estimators over the accepted set, garbage-twin and accepted-only differential"

DISTS = ["lognormal", "normal", "log-normal"]


@st.composite
def strategy(draw):
    n = draw(st.integers(8, 50))
    lo_f = draw(gen.floats(0.1, 1))
    f = [float(v) for v in (np.geomspace(lo_f, lo_f * draw(gen.floats(10, 200)), n) if draw(st.booleans())
                            else np.linspace(lo_f, lo_f + draw(gen.floats(5, 50)), n))]
    nwin = draw(st.one_of(st.integers(3, 12), st.integers(3, 12), st.sampled_from([60, 130, 257])))      # rarely: many windows
    curves = []
    centre = draw(gen.floats(0.2, 0.8))
    for _ in range(nwin):
        k = draw(gen.choice(["peak", "peak", "peak", "peak", "noisy", "monotone", "flat", "ints"]))
        if k == "peak":
            c = dict(kind="bumps", base=draw(gen.floats(0.5, 2)),
                     bumps=[(min(0.97, max(0.03, centre + draw(gen.floats(-0.25, 0.25)))), draw(gen.floats(1, 6)), draw(gen.floats(0.03, 0.2)))])
            if draw(gen.chance(4)):
                c["bumps"].append((draw(gen.floats(0.03, 0.97)), draw(gen.floats(0.5, 8)), draw(gen.floats(0.03, 0.2))))
        elif k == "noisy":
            c = dict(kind="noisy", base=1.0, bumps=[(centre, 3.0, 0.1)], seed=draw(gen.seeds32), noise=draw(st.sampled_from([0.05, 0.3])))
        elif k == "monotone":
            c = dict(kind="monotone", up=draw(st.booleans()))
        elif k == "flat":
            c = dict(kind="flat", value=draw(gen.floats(0.5, 3)))
        else:
            c = dict(kind="ints", seed=draw(gen.seeds32), levels=3)
        curves.append(c)

    def bound():
        kind = draw(st.sampled_from(["none", "none", "grid", "off", "grid", "off", "far"]))
        if kind == "none":
            return None
        if kind == "far":
            return draw(st.sampled_from([float("inf"), 1e20, 0.0, -float("inf")]))
        if kind == "grid":
            return f[draw(st.integers(0, n - 1))]
        return draw(gen.floats(f[0] * 0.5, f[-1] * 1.2))

    def rng():
        lo, hi = bound(), bound()
        if lo is not None and hi is not None and lo > hi:
            lo, hi = hi, lo
        return [lo, hi]

    ops = []
    for _ in range(draw(st.integers(1, 7))):
        kind = draw(gen.choice(["range", "fdwr", "manual", "timedomain", "range", "manual", "peakonly", "retune", "retune"]))
        if kind == "retune":
            # same search range again, the shared kwargs dict edited in place in between (a parameter sweep)
            ops.append(dict(op="range", range="same", kw="shared-prom", prom=draw(st.sampled_from([0.05, 0.3, 1.0, 2.5])), how="tuple"))
        elif kind == "range":
            ops.append(dict(op="range", range=rng(), kw=draw(st.sampled_from(["none", "empty", "empty", "prom", "shared-prom", "shared-prom"])),
                            prom=draw(st.sampled_from([0.05, 0.3, 1.0, 2.5])),
                            how=draw(st.sampled_from(["tuple", "same-list", "same-list"]))))
        elif kind == "peakonly":
            ops.append(dict(op="peakonly", idx=draw(st.lists(st.integers(0, nwin - 1), min_size=1, max_size=max(1, nwin // 3), unique=True))))
        elif kind == "fdwr":
            ops.append(dict(op="fdwr", kw=draw(st.sampled_from(["none", "none", "shared-prom"])), prom=draw(st.sampled_from([0.05, 0.3, 1.0])), n=draw(st.sampled_from([0.5, 1.0, 1.5, 2.0, 2.5])), max_iterations=draw(st.sampled_from([1, 2, 5, 50])),
                            dist_fn=draw(st.sampled_from(["lognormal", "normal"])), dist_mc=draw(st.sampled_from(["lognormal", "normal"])),
                            range=rng()))
        elif kind == "manual":
            ops.append(dict(op="manual", idx=draw(st.lists(st.integers(0, nwin - 1), min_size=1, max_size=max(1, nwin // 2), unique=True))))
        else:
            ops.append(dict(op="timedomain", how=draw(st.sampled_from(["maximum", "stalta"])),
                            keep=[draw(st.sampled_from([True, True, True, False])) for _ in range(nwin)]))
    return dict(f=f, curves=curves, ops=ops, nstd=draw(st.sampled_from([1.0, 2.0, 0.5, 1.645])))


BIG = {"quick": 16, "thorough": 128}


@st.composite
def strategy_big(draw):
    """Deployment-scale curve sets: 2^18 .. 2^23 amplitudes in total (e.g. 30 000 windows x 160 frequencies or
    4 000 x 2 048), built by tiling the drawn curves with seeded multiplicative scatter; short histories of
    range updates, frequency-domain rejection and manual rejection of a seeded subset."""
    case = draw(strategy())
    nfreq = draw(st.sampled_from([50, 160, 160, 512, 1024, 2048]))
    total = draw(gen.big_size(2 ** 18, 2 ** 23))
    nwin = min(40000, max(16, total // nfreq))
    lo_f = case["f"][0]
    case["f"] = [float(v) for v in np.geomspace(lo_f, lo_f * 100.0, nfreq)]
    case["tile"] = dict(nwin=nwin, seed=draw(gen.seeds32), jitter=draw(st.sampled_from([0.05, 0.2, 0.5])))
    ops = []
    for op in case["ops"][:3]:
        if op["op"] in ("manual", "peakonly", "timedomain"):
            ops.append(dict(op="manual" if op["op"] != "peakonly" else "peakonly",
                            pick=[draw(gen.seeds32), draw(st.sampled_from([0.0003, 0.01, 0.2, 0.6]))]))
        elif op["op"] == "range":
            ops.append(dict(op, range="same" if op["range"] == "same" else [None if v is None else float(np.interp(v, [lo_f, lo_f * 200], [lo_f, lo_f * 100])) for v in op["range"]]))
        else:
            ops.append(dict(op, range=[None, None], max_iterations=min(op["max_iterations"], 5)))
    if not any(o["op"] in ("manual", "fdwr") for o in ops):
        ops.append(dict(op="manual", pick=[draw(gen.seeds32), 0.01]))
    case["ops"] = ops
    return case


def _records(hv, keep, how):
    """Tiny synthetic windows whose time-domain verdict is the drawn selection."""
    out = []
    t = np.arange(400) * 0.01
    for i, k in enumerate(keep):
        x = np.sin(2 * np.pi * (3 + i) * t) + 0.3 * np.sin(2 * np.pi * 11 * t + i)
        if not k:
            x = x.copy()
            x[200:240] *= 60.0
        ts = hv.TimeSeries(x, 0.01)
        out.append(hv.SeismicRecording3C(ts, ts, ts))
    return out


def _stats_reference(f, A, W, P_f, P_a, dist, nstd):
    d = "lognormal" if dist == "log-normal" else dist
    ref = {}
    rows = A[W]
    if len(rows) >= 1:
        ref["mean_curve"] = rows[0].copy() if len(rows) == 1 else oracle.mean_dist(rows, d, axis=0)
    if len(rows) >= 2:
        ref["std_curve"] = oracle.std_dist(rows, d, axis=0)
        for sgn in (+1, -1):
            ref[f"nth_std_curve({sgn * nstd})"] = oracle.nth_dist(ref["mean_curve"], ref["std_curve"], sgn * nstd, d)
    if len(P_f) >= 1:
        ref["mean_fn_frequency"] = oracle.mean_dist(P_f, d)
        ref["mean_fn_amplitude"] = oracle.mean_dist(P_a, d)
    if len(P_f) >= 2:
        ref["std_fn_frequency"] = oracle.std_dist(P_f, d)
        ref["std_fn_amplitude"] = oracle.std_dist(P_a, d)
        for sgn in (+1, -1):
            ref[f"nth_std_fn_frequency({sgn * nstd})"] = oracle.nth_dist(ref["mean_fn_frequency"], ref["std_fn_frequency"], sgn * nstd, d)
            ref[f"nth_std_fn_amplitude({sgn * nstd})"] = oracle.nth_dist(ref["mean_fn_amplitude"], ref["std_fn_amplitude"], sgn * nstd, d)
        x, y = (np.log(P_f), np.log(P_a)) if d == "lognormal" else (P_f, P_a)
        ref["cov_fn"] = np.cov(np.vstack([x, y]), ddof=1)
    return ref


def _stats_object(h, dist, nstd, have):
    out = {}
    for key in have:
        if "(" in key:
            name, arg = key[:-1].split("(")
            raw = sut(getattr(h, name), float(arg), dist, what=f"{name}({arg}, {dist})")
        else:
            raw = sut(getattr(h, key), dist, what=f"{key}({dist})")
        out[key] = np.array(raw, dtype=float, copy=True)
        # a returned array belongs to the caller (e.g. normalised in place for a plot): scribbling on it must not
        # change what the object answers later
        if isinstance(raw, np.ndarray) and raw.ndim >= 1 and raw.flags.writeable:
            raw[...] = -7.0
    return out


def check_case(case):
    import hvsrpy as hv
    f = np.array(case["f"], dtype=float)
    n = len(f)
    A = np.array([c08.expand_curve(c, n) for c in case["curves"]])
    if case.get("tile"):
        t = case["tile"]
        g = np.random.Generator(np.random.PCG64(t["seed"]))
        A = A[np.arange(t["nwin"]) % len(A)] * np.exp(t["jitter"] * g.standard_normal((t["nwin"], 1))) * np.exp(0.02 * g.standard_normal((t["nwin"], n)))
    nwin = len(A)
    nstd = case["nstd"]
    h = hv.HvsrTraditional(f, A)
    cur_range, cur_kw = (None, None), None
    shared = [None, None]
    shared_kw = {}
    labels = []
    nontrivial = False
    history = []

    def verify(step):
        nonlocal nontrivial
        W = np.asarray(h.valid_window_boolean_mask, dtype=bool).copy()
        VP = np.asarray(h.valid_peak_boolean_mask, dtype=bool).copy()
        require(W.shape == (nwin,) and VP.shape == (nwin,), f"{step}: masks have shape {W.shape}/{VP.shape} for {nwin} windows")
        # windows with a peak under the current range: taken from an independent single-curve evaluation
        pk = []
        for a in A:
            c = hv.HvsrCurve(f, a)
            c.update_peaks_bounded(tuple(cur_range), None if not cur_kw else dict(cur_kw))
            pk.append((float(c.peak_frequency), float(c.peak_amplitude)))
        has_peak = np.array([not math.isnan(p[0]) for p in pk])
        P = VP & has_peak & W          # "rejected windows never influence any statistic": a rejected window's peak does not count either
        P_f = np.array([pk[i][0] for i in range(nwin) if P[i]])
        P_a = np.array([pk[i][1] for i in range(nwin) if P[i]])
        if (VP & ~has_peak).any():
            labels.append("peakless-window-flagged-valid")
        if W.sum() < 2 or P.sum() < 2:
            labels.append("degenerate-state")
            # documented refusals only
            for dist in ("lognormal", "normal"):
                try:
                    sut(h.std_curve, dist, allow=(ValueError,), what="std_curve")
                except Refusal:
                    pass
            return
        # windows without a peak never enter the resonance statistics
        pf = np.asarray(h.peak_frequencies, dtype=float)
        got_pf = pf[~np.isnan(pf)]
        if not (len(got_pf) == len(P_f) and np.array_equal(got_pf, P_f)):
            raise Violation(f"{step}: peak_frequencies {pf.tolist()} but the accepted windows with a peak in range {cur_range} have {P_f.tolist()}")
        for dist in DISTS:
            ref = _stats_reference(f, A, W, P_f, P_a, dist, nstd)
            got = _stats_object(h, dist, nstd, ref.keys())
            for key, want in ref.items():
                # identical windows give a spread of ~1e-17 instead of 0: absolute floor for the spread statistics
                floor = 1e-12 * (1.0 if dist != "normal" else float(np.max(np.abs(A))) * (float(np.max(np.abs(A))) if key == "cov_fn" else 1.0))
                if key == "cov_fn" and dist == "normal":
                    floor = 1e-12 * float(np.max(np.abs(A))) * float(f[-1])
                atol = floor if ("std" in key or key == "cov_fn") and "nth" not in key else 1e-300
                if key.startswith("nth_std_") and dist == "normal":
                    # mean + n*std can cancel (e.g. mean = 2*std, n = -2): tolerance relative to the terms, not to the difference
                    base, arg = key[len("nth_std_"):-1].split("(")
                    atol = 1e-12 * (np.abs(np.asarray(ref["mean_" + base], dtype=float)) + abs(float(arg)) * np.abs(np.asarray(ref["std_" + base], dtype=float)))
                if not close(got[key], want, rtol=1e-10, atol=atol):
                    raise Violation(f"{step}: {key} ({dist}) = {np.ravel(got[key])[:4].tolist()} differs from the textbook estimator over the "
                                    f"{int(W.sum())} accepted windows / {int(P.sum())} accepted peaks = {np.ravel(want)[:4].tolist()} "
                                    f"(rel err {rel_err(got[key], want):.3g}); masks window={W.astype(int).tolist()} peak={VP.astype(int).tolist()}")
            # lognormal symmetry about the median
            if dist != "normal":
                for q in ("fn_frequency", "fn_amplitude"):
                    up, dn, med = got[f"nth_std_{q}({nstd})"], got[f"nth_std_{q}({-nstd})"], got[f"mean_{q}"]
                    require(close(up * dn, med * med, rtol=1e-10), f"{step}: +n and -n values of {q} are not symmetric about the median in log space")
                per = 1.0 / P_f
                require(close(math.exp(np.mean(np.log(per))), 1.0 / float(got["mean_fn_frequency"]), rtol=1e-10) and
                        close(np.std(np.log(per), ddof=1), float(got["std_fn_frequency"]), rtol=1e-9, atol=1e-12),
                        f"{step}: lognormal statistics of the period are not the reciprocal median / same log-std of the frequency statistics")
            # peak of the mean curve: highest local maximum of the (verified) mean curve in the current range
            try:
                mf, ma = sut(h.mean_curve_peak, dist, allow=(ValueError,), what="mean_curve_peak")
                mf, ma = float(mf), float(ma)
            except Refusal:
                mf, ma = math.nan, math.nan
            if not cur_kw:
                c08._check_peak(f"{step}: mean_curve_peak({dist})", f, got["mean_curve"], cur_range, mf, ma)
            else:
                # non-default find_peaks options: the single-curve evaluation of the (verified) mean curve is the reference
                cm = hv.HvsrCurve(f, got["mean_curve"])
                cm.update_peaks_bounded(tuple(cur_range), dict(cur_kw))
                same = (math.isnan(mf) and math.isnan(float(cm.peak_frequency))) or (mf == float(cm.peak_frequency) and ma == float(cm.peak_amplitude))
                require(same, f"{step}: mean_curve_peak({dist}) = ({mf}, {ma}) but the mean curve evaluated as a single curve with {cur_kw} peaks at "
                              f"({float(cm.peak_frequency)}, {float(cm.peak_amplitude)})")
        rejected = ~W
        if rejected.any():
            allmean = oracle.mean_dist(A, "lognormal", axis=0)
            if rel_err(allmean, oracle.mean_dist(A[W], "lognormal", axis=0)) > 1e-6:
                nontrivial = True
            # twin object: rejected rows hold garbage -> every statistic bit-identical
            both_rej = ~W & ~VP
            if both_rej.any():
                G = A.copy()
                G[both_rej] = G[both_rej][:, ::-1] * 7.5 + 3.0
                G[np.ix_(np.flatnonzero(both_rej)[::2], np.arange(0, G.shape[1], 3))] = 0.0      # dead samples (amplitude 0 is a valid input)
                twin = hv.HvsrTraditional(f, G)
                twin.update_peaks_bounded(tuple(cur_range), None if cur_kw is None else dict(cur_kw))
                twin.valid_window_boolean_mask = W.copy()
                twin.valid_peak_boolean_mask = VP.copy()
                for dist in ("lognormal", "normal"):
                    keys = _stats_reference(f, A, W, P_f, P_a, dist, nstd).keys()
                    a_, b_ = _stats_object(h, dist, nstd, keys), _stats_object(twin, dist, nstd, keys)
                    for key in keys:
                        if not same_bits(a_[key], b_[key]):
                            raise Violation(f"{step}: {key} ({dist}) changes when the *rejected* windows {np.flatnonzero(both_rej).tolist()} are replaced by garbage "
                                            f"(rel diff {rel_err(a_[key], b_[key]):.3g}): a rejected window influences the statistic")
                labels.append("garbage-twin")
        # object built from the accepted windows alone
        if np.array_equal(W, P):
            if int(W.sum()) % 2:
                alone = hv.HvsrTraditional(f, A[W])
            else:       # the other public constructor
                alone = hv.HvsrTraditional.from_hvsr_curves([hv.HvsrCurve(f, a) for a in A[W]])
            alone.update_peaks_bounded(tuple(cur_range), None if cur_kw is None else dict(cur_kw))
            for dist in ("lognormal", "normal"):
                keys = _stats_reference(f, A, W, P_f, P_a, dist, nstd).keys()
                a_, b_ = _stats_object(h, dist, nstd, keys), _stats_object(alone, dist, nstd, keys)
                for key in keys:
                    if not close(a_[key], b_[key], rtol=1e-12, atol=1e-13 * max(float(np.max(np.abs(A))), float(f[-1]), 1.0) ** 2 if ("std" in key or key == "cov_fn") and "nth" not in key else 1e-300):
                        raise Violation(f"{step}: {key} ({dist}) differs from an object built from the accepted windows alone (rel diff {rel_err(a_[key], b_[key]):.3g})")
            labels.append("accepted-only-object")

    if case.get("tile"):
        labels.append("big-2^%d-elements" % int(math.log2(A.size)))
        labels.append("big-windows>1000" if nwin > 1000 else "big-windows<=1000")
    else:
        verify("initial state")
    for k, op in enumerate(case["ops"], start=1):
        step = f"after op {k} ({op['op']})"
        if "pick" in op:
            seed_, frac = op["pick"]
            op = dict(op, idx=np.random.Generator(np.random.PCG64(seed_)).choice(nwin, size=max(1, int(frac * nwin)), replace=False).tolist())
        if op["op"] == "range":
            cur_range = tuple(cur_range) if op["range"] == "same" else tuple(op["range"])
            kwk = op.get("kw", "none")
            if kwk == "shared-prom":
                shared_kw["prominence"] = op["prom"]     # one dict object re-used and edited in place (a tuning loop)
                arg_kw, cur_kw = shared_kw, dict(shared_kw)
                labels.append("same-kwargs-dict-reused")
            elif kwk == "prom":
                arg_kw = {"prominence": op["prom"]}
                cur_kw = dict(arg_kw)
            else:
                arg_kw = cur_kw = (None if kwk == "none" else {})
            if op.get("how") == "same-list":
                shared[0], shared[1] = cur_range       # one list object re-used and edited in place by the caller
                sut(h.update_peaks_bounded, shared, arg_kw, what="update_peaks_bounded")
                labels.append("same-list-reused")
            else:
                sut(h.update_peaks_bounded, cur_range, arg_kw, what="update_peaks_bounded")
        elif op["op"] == "peakonly":
            for i in op["idx"]:
                h.valid_peak_boolean_mask[i] = False     # window kept for the curves, its peak excluded from fn statistics
            labels.append("peak-mask-only")
        elif op["op"] == "fdwr":
            cur_range = tuple(op["range"])
            if op.get("kw") == "shared-prom":
                shared_kw["prominence"] = op["prom"]
                arg_kw, cur_kw = shared_kw, dict(shared_kw)
                labels.append("same-kwargs-dict-reused")
            else:
                arg_kw = cur_kw = None
            try:
                sut(hv.frequency_domain_window_rejection, h, n=op["n"], max_iterations=op["max_iterations"],
                    distribution_fn=op["dist_fn"], distribution_mc=op["dist_mc"], search_range_in_hz=cur_range, find_peaks_kwargs=arg_kw,
                    allow=(ValueError,), what="frequency_domain_window_rejection")
            except Refusal:
                labels.append("fdwr-refused")
            labels.append("fdwr")
        elif op["op"] == "manual":
            for i in op["idx"]:
                h.valid_window_boolean_mask[i] = False
                h.valid_peak_boolean_mask[i] = False
            labels.append("manual")
        else:
            recs = _records(hv, op["keep"], op["how"])
            if op["how"] == "maximum":
                kept = sut(hv.maximum_value_window_rejection, recs, 5.0, normalized=False, hvsr=h, what="maximum_value_window_rejection")
            else:
                kept = sut(hv.sta_lta_window_rejection, recs, 0.4, 4.0, 0.05, 8.0, hvsr=h, what="sta_lta_window_rejection")
            require(len(kept) == sum(op["keep"]), f"time-domain rejection kept {len(kept)} windows, the harness built {sum(op['keep'])} clean ones")
            labels.append("timedomain")
        history.append(op["op"])
        if op["op"] == "range" and any(x in history[:-1] for x in ("manual", "fdwr", "timedomain")):
            labels.append("rejection-then-range-update")
        if not case.get("tile") or k == len(case["ops"]):      # scale cases: the final state only (cost)
            verify(step)
    return dict(labels=sorted(set(labels)), nontrivial=nontrivial)
