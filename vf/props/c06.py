"""C06 - Frequency-domain window rejection follows Cox et al. (2020) and terminates."""
import logging
import math
import re

import numpy as np
from hypothesis import strategies as st

from .. import gen, oracle
from ..core import Violation, Refusal, require, sut

ID = "C06"
RULE = ("Cases: 4-40 windows on a geometric grid whose peak frequencies follow a drawn mixture (tight cluster, outliers, "
        "optionally bimodal), traditional or azimuthal (1-4 azimuths), n in (0.3, 4], max_iterations in {1,2,3,5,50}, the four "
        "distribution combinations, search range None / bounded. The oracle is an independent numpy implementation of the "
        "published loop. Non-trivial = the reference performs >= 2 iterations or rejects >= 1 window, with every decision "
        "margin >= 1e-9; distinct by SHA-1 of the case."
        " Outlier windows may form a transient group (contiguous block or scattered) with 8x/40x amplitudes; search limits include inf/1e20/0/-inf. Scale pass: 512-6000 windows per azimuth. The library's debug log supplies the per-iteration quantities.")
ASSUMPTIONS = [
    "decisions closer than 1e-9 (relative) to a bound or to the 0.01 convergence thresholds are knife edges and not asserted",
    "degenerate states the publication does not define (fewer than two accepted peaks, mean curve without a peak) only require: no exception other than ValueError",
    "search ranges for which inclusive/exclusive snapping of the upper bound would change a peak are labelled snap-ambiguous and not asserted",
]
BUDGET = {"quick": 1600, "thorough": 40000}
SHARDS = {"quick": 8, "thorough": 16}
TECHNIQUE = "property-based testing against an independent reference implementation of the published algorithm + metamorphic relations (permutation, rescaling) + monotonicity from debug log"


@st.composite
def strategy(draw):
    nf = draw(st.integers(30, 90))
    f0 = draw(gen.floats(0.1, 0.5))
    f = [float(v) for v in np.geomspace(f0, f0 * draw(gen.floats(30, 150)), nf)]
    naz = draw(st.sampled_from([0, 0, 0, 1, 2, 3, 4]))      # 0 = traditional
    pre_td = draw(st.sampled_from(["none", "none", "maximum", "stalta", "stalta"]))
    nwin_common = draw(st.integers(4, 40))
    groups = []
    for _ in range(max(1, naz)):
        groups.append(dict(nwin=nwin_common if pre_td != "none" else draw(st.integers(4, 40)), seed=draw(gen.seeds32),
                           centre=draw(gen.floats(0.25, 0.75)), sigma=draw(gen.log_floats(0.005, 0.15)),
                           outlier_frac=draw(st.sampled_from([0.0, 0.1, 0.25, 0.4])), outlier_sigma=draw(gen.floats(0.05, 0.3)),
                           bimodal=draw(st.sampled_from([0.0, 0.0, 0.08, 0.2, 0.35])), bimodal_frac=draw(gen.floats(0.15, 0.5)),
                           second_bump=draw(st.booleans()),
                           # a coherent group of outlier windows with much larger amplitudes (a transient source): the peak of
                           # the mean curve starts at the outliers' frequency and moves once they are rejected
                           outlier_gain=draw(st.sampled_from([1, 1, 1, 8, 40])), outlier_shift=draw(st.sampled_from([-0.3, 0.25, 0.35, 0.45])),
                           outlier_block=draw(st.sampled_from([None, None, 0.0, 0.3, 0.6, 1.0]))))
    rng = [None, None]
    if draw(gen.chance(3)):
        lo = draw(st.one_of(st.none(), st.sampled_from(f[: nf // 2]), gen.floats(f[0] * 0.5, f[nf // 2]), st.sampled_from([0.0, -float("inf")])))
        hi = draw(st.one_of(st.none(), st.sampled_from(f[nf // 2:]), gen.floats(f[nf // 2], f[-1] * 1.5), st.sampled_from([float("inf"), 1e20])))
        rng = [lo, hi]
    return dict(f=f, naz=naz, groups=groups,
                n=draw(st.one_of(gen.floats(0.3, 4.0), st.sampled_from([1.0, 1.25, 1.5, 2.0, 2.5]))),
                max_iterations=draw(st.sampled_from([1, 2, 3, 5, 50, 50])),
                dist_fn=draw(st.sampled_from(["lognormal", "normal"])), dist_mc=draw(st.sampled_from(["lognormal", "normal"])),
                range=rng, perm_seed=draw(st.integers(0, 10 ** 6)), k=draw(st.sampled_from([-4, -1, 1, 3])),
                pre_td=pre_td,
                # windows rejected by hand beforehand; the call repeats the object's own search range and find_peaks options, so the
                # peak search on entry changes nothing and the algorithm starts from that accept state
                prior=(dict(frac=draw(st.sampled_from([0.1, 0.2, 0.35])), seed=draw(gen.seeds32)) if (pre_td == "none" and draw(gen.chance(4))) else None))


BIG = {"quick": 64, "thorough": 640}


@st.composite
def strategy_big(draw):
    """Deployment-scale window counts: 512 .. 6000 windows per azimuth (a day of 30 s windows is 2880), including the
    1000 / 1001 boundary at which numpy starts to abbreviate printed arrays."""
    case = draw(strategy())
    common = draw(st.one_of(gen.big_size(512, 6000), st.sampled_from([1000, 1001, 1500, 3000])))
    for g in case["groups"][:2]:
        g["nwin"] = common if case["pre_td"] != "none" else draw(st.one_of(gen.big_size(512, 6000), st.sampled_from([1000, 1001, 1500, 3000])))
        g["outlier_frac"] = draw(st.sampled_from([0.03, 0.06, 0.1, 0.12, 0.25]))
        g["outlier_gain"] = draw(st.sampled_from([1, 8, 40, 40]))
        g["outlier_block"] = draw(st.sampled_from([None, 0.1, 0.3, 0.5, 0.7]))
        g["outlier_shift"] = draw(st.sampled_from([-0.4, 0.3, 0.4, 0.5]))
        g["sigma"] = draw(st.sampled_from([g["sigma"], 0.05, 0.08, 0.12]))
        g["centre"] = 0.5 if g["outlier_shift"] < 0.45 else 0.4
    case["groups"] = case["groups"][:2]
    case["naz"] = min(case["naz"], 2)
    case["big"] = True
    return case


def expand_group(g, f):
    f = np.asarray(f)
    n = len(f)
    r = np.random.Generator(np.random.PCG64(g["seed"]))
    x = np.linspace(0, 1, n)
    pos = g["centre"] + g["sigma"] * r.standard_normal(g["nwin"])
    if g["bimodal"] > 0:
        second = r.random(g["nwin"]) < g["bimodal_frac"]
        pos = np.where(second, pos - g["bimodal"], pos)
    out = r.random(g["nwin"]) < g["outlier_frac"]
    if g.get("outlier_block") is not None:
        # a transient: the outliers are consecutive windows starting at a drawn position of the recording
        k = int(round(g["outlier_frac"] * g["nwin"]))
        start = int(g["outlier_block"] * max(0, g["nwin"] - k))
        out = np.zeros(g["nwin"], dtype=bool)
        out[start:start + k] = True
    pos = np.where(out, pos + g["outlier_sigma"] * r.standard_normal(g["nwin"]) * 2, pos)
    gain = np.ones(g["nwin"])
    if g.get("outlier_gain", 1) > 1:
        pos = np.where(out, g["centre"] + g["outlier_shift"] + 0.01 * r.standard_normal(g["nwin"]), pos)
        gain = np.where(out, float(g["outlier_gain"]), 1.0)
    pos = np.clip(pos, 0.06, 0.94)
    A = []
    for p, k in zip(pos, gain):
        a = 1.0 + k * r.uniform(1.5, 6) * np.exp(-0.5 * ((x - p) / r.uniform(0.02, 0.07)) ** 2)
        if g["second_bump"]:
            a = a + r.uniform(0.1, 0.6) * np.exp(-0.5 * ((x - r.uniform(0.05, 0.95)) / 0.05) ** 2)
        A.append(a)
    return np.array(A)


def _peak(f, a, rng):
    """(index or None, ambiguous?) under nearest-sample snapping; ambiguous if the two readings of the
    upper end (inclusive / exclusive) or a tie of the nearest sample give different answers."""
    n = len(f)
    los = [0] if rng[0] is None else oracle.nearest_index(f, rng[0])
    his = [n] if rng[1] is None else [h + 1 for h in oracle.nearest_index(f, rng[1])] + [h for h in oracle.nearest_index(f, rng[1])]
    res = {oracle.ref_peak_slice(f, a, lo, hi) for lo in los for hi in his}
    main = oracle.ref_peak_slice(f, a, los[0], his[0])
    return main, len(res) > 1


def ref_fdwr(f, A, n, max_it, dfn, dmc, rng, init=None):
    """Independent implementation of the published loop.
    Returns dict(status='ok'|'degenerate'|'ambiguous', valid, count, margin, masks)."""
    f = np.asarray(f)
    pk_idx = []
    amb = False
    for a in A:
        i, am = _peak(f, a, rng)
        pk_idx.append(i)
        amb |= am
    has = np.array([i is not None for i in pk_idx])
    pk = np.array([f[i] if i is not None else np.nan for i in pk_idx])
    valid = has.copy() if init is None else (has & np.asarray(init, dtype=bool))
    masks = [valid.copy()]
    trace = []
    margin = math.inf

    def stats(v):
        x = pk[v]
        if dfn == "lognormal":
            m = math.exp(np.mean(np.log(x)))
            s = float(np.std(np.log(x), ddof=1))
            lo, hi = math.exp(math.log(m) - n * s), math.exp(math.log(m) + n * s)
        else:
            m = float(np.mean(x))
            s = float(np.std(x, ddof=1))
            lo, hi = m - n * s, m + n * s
        rows = A[v]
        mc = rows[0] if len(rows) == 1 else (np.exp(np.mean(np.log(rows), axis=0)) if dmc == "lognormal" else np.mean(rows, axis=0))
        i, am = _peak(f, mc, rng)
        return m, s, lo, hi, (f[i] if i is not None else None), am

    if amb:
        return dict(status="ambiguous")
    for it in range(1, max_it + 1):
        if valid.sum() < 2:
            return dict(status="degenerate", masks=masks)
        m0, s0, lo, hi, mc0, am = stats(valid)
        if am:
            return dict(status="ambiguous")
        if mc0 is None:
            return dict(status="degenerate", masks=masks)
        d0 = abs(m0 - mc0)
        for x in pk[valid]:
            margin = min(margin, abs(x - lo) / x, abs(x - hi) / x)
        new = valid & (pk > lo) & (pk < hi)
        if new.sum() < 2:
            return dict(status="degenerate", masks=masks)
        valid = new
        masks.append(valid.copy())
        m1, s1, _, _, mc1, am = stats(valid)
        if am:
            return dict(status="ambiguous")
        if mc1 is None:
            return dict(status="degenerate", masks=masks)
        d1 = abs(m1 - mc1)
        trace.append(dict(mean_fn_before=m0, std_fn_before=s0, mc_peak_frq_before=mc0, mean_fn_after=m1, std_fn_after=s1, mc_peak_frq_after=mc1))
        # "zero" = at the level of floating-point round-off (all accepted windows share one peak frequency,
        # or the mean fn sits exactly on the mean-curve peak): the loop stops here.  Values between 1e-13 and
        # 1e-7 are neither clearly zero nor clearly non-zero -> knife edge.
        trio = (d0, s0, s1)
        if any(1e-13 < v < 1e-7 for v in trio):
            margin = 0.0
        if any(v < 1e-10 for v in trio):
            return dict(status="ok", valid=valid, count=it, margin=margin, masks=masks, zero_stop=True, trace=trace)
        dd = abs(d1 - d0) / d0 if d0 > 0 else math.inf
        sd = abs(s1 - s0)
        margin = min(margin, abs(dd - 0.01), abs(sd - 0.01))
        if dd < 0.01 and sd < 0.01:
            return dict(status="ok", valid=valid, count=it, margin=margin, masks=masks, trace=trace)
    return dict(status="ok", valid=valid, count=max_it, margin=margin, masks=masks, hit_limit=True, trace=trace)


class _Capture(logging.Handler):
    def __init__(self):
        super().__init__(level=logging.DEBUG)
        self.window_masks = []
        self.iterations = []          # one dict of logged intermediate values per iteration, in order

    def emit(self, record):
        msg = record.getMessage()
        m = re.match(r"\s*(mean_fn_before|std_fn_before|mc_peak_frq_before|mean_fn_after|std_fn_after|mc_peak_frq_after): (\S+)$", msg)
        if m and self.iterations:
            try:
                self.iterations[-1][m.group(1)] = float(m.group(2))
            except ValueError:
                pass
        if msg.startswith("c_iteration"):
            self.window_masks.append(None)
            self.iterations.append({})
        elif msg.startswith("valid_window_boolean_mask:"):
            toks = re.findall(r"True|False", msg)
            self.window_masks.append(np.array([t == "True" for t in toks]))


def _run(hv, obj, case, rng, kw=None):
    logger = logging.getLogger("hvsrpy.window_rejection")
    cap = _Capture()
    old_level, old_prop = logger.level, logger.propagate
    logger.addHandler(cap)
    logger.setLevel(logging.DEBUG)
    logger.propagate = False
    try:
        count = sut(hv.frequency_domain_window_rejection, obj, n=case["n"], max_iterations=case["max_iterations"],
                    distribution_fn=case["dist_fn"], distribution_mc=case["dist_mc"], search_range_in_hz=tuple(rng), find_peaks_kwargs=kw,
                    allow=(ValueError,), what="frequency_domain_window_rejection")
    finally:
        logger.removeHandler(cap)
        logger.setLevel(old_level)
        logger.propagate = old_prop
    _run.last_iterations = cap.iterations
    return count, cap.window_masks


def check_case(case):
    import hvsrpy as hv
    f = np.array(case["f"], dtype=float)
    rng = case["range"]
    groups = [expand_group(g, f) for g in case["groups"]]
    az = case["naz"] > 0
    labels = ["azimuthal" if az else "traditional", f"{case['dist_fn']}/{case['dist_mc']}"]
    if case.get("big"):
        labels.append("big->1000-windows" if max(len(A) for A in groups) > 1000 else "big-<=1000-windows")
    if rng != [None, None]:
        labels.append("bounded-range")

    def build(gs):
        if az:
            return hv.HvsrAzimuthal([hv.HvsrTraditional(f, A) for A in gs], [float(i * 180.0 / len(gs)) for i in range(len(gs))])
        return hv.HvsrTraditional(f, gs[0])

    prior = case.get("prior")
    inits, kw = [None] * len(groups), None
    if prior:
        g_ = np.random.Generator(np.random.PCG64(prior["seed"]))
        inits = [g_.random(len(A)) >= prior["frac"] for A in groups]
        kw = {}
        labels.append("windows-rejected-beforehand")

    def prepare(o, masks):
        """object state before the call in the 'prior' scenario: own range/options set, some windows rejected by hand"""
        if not prior:
            return o
        for t, m in zip(o.hvsrs if az else [o], masks):
            t.update_peaks_bounded(tuple(rng), {})
            t.valid_window_boolean_mask = np.asarray(t.valid_window_boolean_mask, dtype=bool) & m
            t.valid_peak_boolean_mask = np.asarray(t.valid_peak_boolean_mask, dtype=bool) & m
        return o

    refs = [ref_fdwr(f, A, case["n"], case["max_iterations"], case["dist_fn"], case["dist_mc"], rng, init) for A, init in zip(groups, inits)]
    obj = prepare(build(groups), inits)
    if case.get("pre_td", "none") != "none":
        # history: a time-domain rejection that keeps every window was applied to the same object before
        # (the algorithm's own peak search on entry defines the starting accept state, so the reference is unchanged)
        t = np.arange(300) * 0.01
        recs = []
        for i in range(len(groups[0])):
            ts = hv.TimeSeries(np.sin(2 * np.pi * (2 + 0.1 * i) * t) + 0.2 * np.sin(2 * np.pi * 9 * t + i), 0.01)
            recs.append(hv.SeismicRecording3C(ts, ts, ts))
        if case["pre_td"] == "maximum":
            kept = sut(hv.maximum_value_window_rejection, recs, 5.0, normalized=False, hvsr=obj, what="maximum_value_window_rejection")
        else:
            kept = sut(hv.sta_lta_window_rejection, recs, 0.3, 2.5, 0.05, 8.0, hvsr=obj, what="sta_lta_window_rejection")
        require(len(kept) == len(recs), "harness: the preparatory time-domain rejection was meant to keep every window")
        labels.append("after-time-domain-rejection")
    try:
        count, logs = _run(hv, obj, case, rng, kw)
        first_iterations = _run.last_iterations
    except Refusal as r:
        if all(rf["status"] == "ok" for rf in refs) and min(rf["margin"] for rf in refs) >= 1e-9:
            raise Violation(f"frequency_domain_window_rejection raised {r.exc!r} on a case the published algorithm handles "
                            f"(n={case['n']}, max_iterations={case['max_iterations']}, {case['dist_fn']}/{case['dist_mc']}, range {rng})")
        return dict(labels=labels + ["degenerate-refused"], nontrivial=False)
    require(isinstance(count, (int, np.integer)) and 1 <= count <= case["max_iterations"],
            f"returned iteration count {count!r} for max_iterations={case['max_iterations']}")
    hs = obj.hvsrs if az else [obj]
    # monotonicity, from the masks logged at every iteration start + the final masks
    it_masks = [[] for _ in hs]
    g = -1
    for m in logs:
        if m is None:
            continue
        # masks are logged per (azimuth, iteration) in order; a new azimuth starts when the size changes or count restarts
        it_masks[min(len(it_masks) - 1, g if g >= 0 else 0)].append(m)
    statuses = [rf["status"] for rf in refs]
    if any(s == "ambiguous" for s in statuses):
        return dict(labels=labels + ["snap-ambiguous"], nontrivial=False)
    for j, (h, rf, A) in enumerate(zip(hs, refs, groups)):
        entry = np.array([oracle.ref_peak_slice(f, a, *_slice(f, rng)) is not None for a in A])
        final_w = np.asarray(h.valid_window_boolean_mask, dtype=bool)
        final_p = np.asarray(h.valid_peak_boolean_mask, dtype=bool)
        if entry.any():
            require(not (final_w & ~entry).any() and not (final_p & ~entry).any(),
                    f"azimuth {j}: a window without a peak at entry is accepted at the end")
    if any(s == "degenerate" for s in statuses):
        return dict(labels=labels + ["degenerate"], nontrivial=False)
    margin = min(rf["margin"] for rf in refs)
    if margin < 1e-9:
        return dict(labels=labels + ["knife-edge"], nontrivial=False)
    exp_count = max(rf["count"] for rf in refs)
    for j, (h, rf) in enumerate(zip(hs, refs)):
        w = np.asarray(h.valid_window_boolean_mask, dtype=bool)
        p = np.asarray(h.valid_peak_boolean_mask, dtype=bool)
        if not (np.array_equal(w, rf["valid"]) and np.array_equal(p, rf["valid"])):
            raise Violation(f"{'azimuth %d: ' % j if az else ''}accept masks window={w.astype(int).tolist()} peak={p.astype(int).tolist()} differ from the published "
                            f"algorithm's decisions {rf['valid'].astype(int).tolist()} after {rf['count']} iterations "
                            f"(n={case['n']}, max_iterations={case['max_iterations']}, {case['dist_fn']}/{case['dist_mc']}, range {rng}, margin {margin:.3g})")
    if count != exp_count:
        raise Violation(f"returned {count} iterations, the published algorithm performs {exp_count} "
                        f"(n={case['n']}, max_iterations={case['max_iterations']}, {case['dist_fn']}/{case['dist_mc']}, range {rng}, per azimuth {[rf['count'] for rf in refs]})")
    # intermediate quantities of every iteration, from the library's own debug log: mean and spread of the accepted
    # peak frequencies and the peak of the mean curve before / after the rejection step
    logged = list(first_iterations)
    if len(logged) == sum(rf["count"] for rf in refs):
        pos_ = 0
        for j, rf in enumerate(refs):
            for it, (got_it, want_it) in enumerate(zip(logged[pos_:pos_ + rf["count"]], rf["trace"]), start=1):
                for key, want in want_it.items():
                    if key not in got_it:
                        continue
                    tol = 0.0 if key.startswith("mc_peak") else 1e-9 * abs(want) + 1e-12
                    if abs(got_it[key] - want) > tol:
                        raise Violation(f"{'azimuth %d: ' % j if az else ''}iteration {it}: {key} = {got_it[key]!r} in the library's debug log, the published algorithm "
                                        f"has {want!r} for the windows accepted at that point ({int(rf['masks'][it - 1].sum())} before the step)")
            pos_ += rf["count"]
        labels.append("per-iteration-trace")
    # never re-accepts: logged masks (window mask at the start of every iteration) shrink monotonically
    seq = [m for m in logs if m is not None]
    pos = 0
    for j, rf in enumerate(refs):
        k = rf["count"]
        mine = seq[pos:pos + k]
        pos += k
        prev = None
        for it, m in enumerate(mine, start=1):
            if len(m) != len(rf["valid"]):
                prev = None
                continue
            if prev is not None and (m & ~prev).any():
                raise Violation(f"azimuth {j}: window(s) {np.flatnonzero(m & ~prev).tolist()} re-accepted at iteration {it}")
            if not np.array_equal(m, rf["masks"][it - 1]):
                raise Violation(f"azimuth {j}: accept mask at the start of iteration {it} is {m.astype(int).tolist()}, the published algorithm has {rf['masks'][it - 1].astype(int).tolist()}")
            prev = m
    # a second call on the same object with the same arguments: with the default options the peak search on entry starts
    # again from every window with a peak (same decisions, same count); where the call repeats the object's own range and
    # options it starts from the accept state the first call left
    refs2 = refs if kw is None else [ref_fdwr(f, A, case["n"], case["max_iterations"], case["dist_fn"], case["dist_mc"], rng, rf["valid"]) for A, rf in zip(groups, refs)]
    decidable2 = all(r2["status"] == "ok" and r2["margin"] >= 1e-9 for r2 in refs2)
    count2 = None
    try:
        count2, _ = _run(hv, obj, case, rng, kw)
    except Refusal as r:
        if decidable2:
            raise Violation(f"a second frequency_domain_window_rejection call with the same arguments on the same object was refused ({r.exc})")
        labels.append("second-call-degenerate-refused")
    if decidable2 and count2 is not None:
        for j, (h, r2) in enumerate(zip(hs, refs2)):
            w = np.asarray(h.valid_window_boolean_mask, dtype=bool)
            if not np.array_equal(w, r2["valid"]):
                raise Violation(f"{'azimuth %d: ' % j if az else ''}second call with the same arguments on the same object: accepted windows {w.astype(int).tolist()}, "
                                f"the published algorithm started from {'every window with a peak' if kw is None else 'the state left by the first call'} gives {r2['valid'].astype(int).tolist()}")
        want2 = max(r2["count"] for r2 in refs2)
        require(count2 == want2, f"second call with the same arguments on the same object returns {count2} iterations, expected {want2}")
        labels.append("second-call-same-object")
    # metamorphic: permutation of the windows, rescaling of the amplitudes
    perm_rng = np.random.Generator(np.random.PCG64(case["perm_seed"]))
    perms = [perm_rng.permutation(len(A)) for A in groups]
    pobj = prepare(build([A[p] for A, p in zip(groups, perms)]), [None if m is None else m[p] for m, p in zip(inits, perms)])
    pcount, _ = _run(hv, pobj, case, rng, kw)
    for j, (h, rf, p) in enumerate(zip(pobj.hvsrs if az else [pobj], refs, perms)):
        if not np.array_equal(np.asarray(h.valid_window_boolean_mask, dtype=bool), rf["valid"][p]):
            raise Violation(f"decisions depend on the order of the windows (azimuth {j})")
    require(pcount == count, f"iteration count depends on the order of the windows ({pcount} vs {count})")
    sobj = prepare(build([A * 2.0 ** case["k"] for A in groups]), inits)
    scount, _ = _run(hv, sobj, case, rng, kw)
    for j, (h, rf) in enumerate(zip(sobj.hvsrs if az else [sobj], refs)):
        if not np.array_equal(np.asarray(h.valid_window_boolean_mask, dtype=bool), rf["valid"]):
            raise Violation(f"decisions change when all amplitudes are multiplied by 2^{case['k']} (azimuth {j})")
    require(scount == count, f"iteration count changes when all amplitudes are rescaled ({scount} vs {count})")
    if any(rf.get("hit_limit") for rf in refs):
        labels.append("hits-limit")
    if any(rf.get("zero_stop") for rf in refs):
        labels.append("stops-on-zero-spread")
    if exp_count >= 2:
        labels.append("multi-iteration")
    rejected = any((rf["masks"][0] & ~rf["valid"]).any() for rf in refs)
    if rejected:
        labels.append("rejects")
    return dict(labels=labels, nontrivial=bool(exp_count >= 2 or rejected))


def _slice(f, rng):
    lo = 0 if rng[0] is None else oracle.nearest_index(f, rng[0])[0]
    hi = len(f) if rng[1] is None else oracle.nearest_index(f, rng[1])[0] + 1
    return lo, hi
