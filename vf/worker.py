"""Case evaluator running in a child interpreter whose environment differs from the parent's (e.g. a default text
encoding that is not UTF-8).  Protocol: one JSON object per line on stdin {"case": ...}; one JSON object per line on
stdout: {"status": "ok", "labels": [...]} | {"status": "violation", "message": ...} | {"status": "error", "error": ...}.

usage: python -m vf.worker <ID>
"""
import json
import locale
import sys
import traceback

from . import core
from .core import Violation


def main(argv):
    pid = argv[1]
    core.import_hvsrpy()
    import importlib
    mod = importlib.import_module(f"vf.props.{pid.lower()}")
    out = sys.stdout
    out.write(json.dumps({"status": "ready", "encoding": locale.getpreferredencoding(False)}) + "\n")
    out.flush()
    for line in sys.stdin:
        line = line.strip()
        if not line:
            continue
        try:
            case = core.revive(json.loads(line)["case"])
            res = mod.check_case(case) or {}
            msg = {"status": "ok", "labels": list(res.get("labels", []))}
        except Violation as v:
            msg = {"status": "violation", "message": v.message}
        except BaseException as e:  # noqa: BLE001
            msg = {"status": "error", "error": "".join(traceback.format_exception(type(e), e, e.__traceback__))[-3000:]}
        out.write(json.dumps(msg) + "\n")
        out.flush()
    return 0


if __name__ == "__main__":
    sys.exit(main(sys.argv))
