"""Common plumbing: violations, tagged calls into hvsrpy, snapshots, hashing."""
import hashlib
import json
import math
import os
import sys

import numpy as np

VERIF_DIR = os.path.dirname(os.path.dirname(os.path.abspath(__file__)))
REPO = os.path.abspath(os.environ.get("VF_REPO", "/repo"))


class Violation(Exception):
    """The code under test broke the property on a generated case."""

    def __init__(self, message, **details):
        super().__init__(message)
        self.message = message
        self.details = details


class SutError(Violation):
    """hvsrpy raised an exception that the property does not allow."""


class Refusal(Exception):
    """hvsrpy refused the input with an exception the property allows."""

    def __init__(self, exc):
        super().__init__(repr(exc))
        self.exc = exc


def sut(fn, *args, allow=(), what=None, **kwargs):
    """Call into hvsrpy. Exceptions of a type in ``allow`` become ``Refusal``
    (legitimate, documented refusals); every other exception raised by the
    code under test is a violation (the property says the call succeeds)."""
    try:
        return fn(*args, **kwargs)
    except Violation:
        raise
    except allow as e:
        raise Refusal(e)
    except Exception as e:  # noqa: BLE001 - deliberate: classify SUT failures
        name = what or getattr(fn, "__name__", str(fn))
        raise SutError(f"{name} raised {type(e).__name__}: {e}",
                       exception=type(e).__name__)


def require(cond, message, **details):
    if not cond:
        raise Violation(message, **details)


# -- JSON helpers -----------------------------------------------------------

def to_jsonable(obj):
    if isinstance(obj, dict):
        return {str(k): to_jsonable(v) for k, v in obj.items()}
    if isinstance(obj, (list, tuple)):
        return [to_jsonable(v) for v in obj]
    if isinstance(obj, np.ndarray):
        return to_jsonable(obj.tolist())
    if isinstance(obj, (np.floating,)):
        return to_jsonable(float(obj))
    if isinstance(obj, (np.integer,)):
        return int(obj)
    if isinstance(obj, (np.bool_,)):
        return bool(obj)
    if isinstance(obj, float):
        if math.isnan(obj):
            return {"__nonfinite__": "nan"}
        if math.isinf(obj):
            return {"__nonfinite__": "inf" if obj > 0 else "-inf"}
        return obj
    if isinstance(obj, complex):
        return [obj.real, obj.imag]
    if isinstance(obj, bytes):
        return obj.hex()
    return obj


def revive(obj):
    """Inverse of to_jsonable for the non-finite floats it writes as {"__nonfinite__": ...} (strict JSON has no inf)."""
    if isinstance(obj, dict):
        if set(obj) == {"__nonfinite__"}:
            return float(obj["__nonfinite__"])
        return {k: revive(v) for k, v in obj.items()}
    if isinstance(obj, list):
        return [revive(v) for v in obj]
    return obj


def canonical(case):
    return json.dumps(to_jsonable(case), sort_keys=True, separators=(",", ":"))


def case_hash(case):
    return hashlib.sha1(canonical(case).encode()).hexdigest()[:16]


# -- snapshots --------------------------------------------------------------

def snap(obj, _depth=0):
    """Recursive, bit-exact, hashable-by-content snapshot of an object graph.

    Arrays become (dtype, shape, bytes); floats become their IEEE bytes (so
    NaN == NaN and 0.0 != -0.0); dicts/lists/tuples by content; objects with
    ``__dict__`` by class name and attribute snapshot."""
    if _depth > 12:
        return ("<deep>",)
    if obj is None or isinstance(obj, (bool, int, str)):
        return obj
    if isinstance(obj, float):
        return ("f", np.float64(obj).tobytes())
    if isinstance(obj, (np.floating, np.integer, np.bool_)):
        return ("np", str(obj.dtype), obj.tobytes())
    if isinstance(obj, np.ndarray):
        return ("nd", str(obj.dtype), obj.shape, np.ascontiguousarray(obj).tobytes())
    if isinstance(obj, dict):
        return ("dict", tuple((repr(k), snap(v, _depth + 1)) for k, v in sorted(obj.items(), key=lambda kv: repr(kv[0]))))
    if isinstance(obj, list):
        return ("list", tuple(snap(v, _depth + 1) for v in obj))
    if isinstance(obj, tuple):
        return ("tuple", tuple(snap(v, _depth + 1) for v in obj))
    if hasattr(obj, "__dict__"):
        return ("obj", type(obj).__name__, snap(vars(obj), _depth + 1))
    return ("repr", repr(obj))


def snap_diff(a, b, path="$"):
    """First path at which two snapshots differ (for messages)."""
    if a == b:
        return None
    if isinstance(a, tuple) and isinstance(b, tuple) and len(a) == len(b) and a and a[0] == b[0]:
        tag = a[0]
        if tag in ("dict",):
            da, db = dict(a[1]), dict(b[1])
            for k in sorted(set(da) | set(db)):
                if k not in da or k not in db:
                    return f"{path}[{k}] present on one side only"
                d = snap_diff(da[k], db[k], f"{path}[{k}]")
                if d:
                    return d
        if tag in ("list", "tuple"):
            if len(a[1]) != len(b[1]):
                return f"{path} length {len(a[1])} vs {len(b[1])}"
            for i, (x, y) in enumerate(zip(a[1], b[1])):
                d = snap_diff(x, y, f"{path}[{i}]")
                if d:
                    return d
        if tag == "obj":
            if a[1] != b[1]:
                return f"{path} class {a[1]} vs {b[1]}"
            return snap_diff(a[2], b[2], path)
        if tag == "nd":
            if a[1] != b[1] or a[2] != b[2]:
                return f"{path} array dtype/shape {a[1]}{a[2]} vs {b[1]}{b[2]}"
            x = np.frombuffer(a[3], dtype=a[1])
            y = np.frombuffer(b[3], dtype=b[1])
            bad = [i for i in range(len(x)) if x[i:i+1].tobytes() != y[i:i+1].tobytes()]
            return f"{path} array differs at flat index {bad[0]}: {x[bad[0]]!r} vs {y[bad[0]]!r} ({len(bad)} of {len(x)} differ)"
    return f"{path}: {a!r:.120} vs {b!r:.120}"


# -- numeric comparisons ----------------------------------------------------

def rel_err(a, b):
    a = np.asarray(a, dtype=float)
    b = np.asarray(b, dtype=float)
    if a.shape != b.shape:
        return math.inf
    if a.size == 0:
        return 0.0
    both_nan = np.isnan(a) & np.isnan(b)
    scale = np.maximum(np.abs(a), np.abs(b))
    with np.errstate(invalid="ignore", divide="ignore"):
        d = np.where(both_nan | (a == b), 0.0, np.abs(a - b) / np.where(scale > 0, scale, 1.0))
    d = np.where(np.isnan(d), math.inf, d)
    return float(np.max(d))


def close(a, b, rtol=1e-9, atol=0.0):
    a = np.asarray(a, dtype=float)
    b = np.asarray(b, dtype=float)
    if a.shape != b.shape:
        if a.ndim and b.ndim:
            return False
        a, b = np.broadcast_arrays(a, b)
    both_nan = np.isnan(a) & np.isnan(b)
    with np.errstate(invalid="ignore"):
        ok = both_nan | (a == b) | (np.abs(a - b) <= atol + rtol * np.maximum(np.abs(a), np.abs(b)))
    return bool(np.all(ok))


def same_bits(a, b):
    a = np.ascontiguousarray(np.asarray(a, dtype=float))
    b = np.ascontiguousarray(np.asarray(b, dtype=float))
    return a.shape == b.shape and a.tobytes() == b.tobytes()


# -- known findings ---------------------------------------------------------

_KNOWN = None


def known_findings():
    """Parse /verif/known_findings.txt (never written at run time)."""
    global _KNOWN
    if _KNOWN is None:
        _KNOWN = []
        path = os.path.join(VERIF_DIR, "known_findings.txt")
        if os.path.exists(path):
            for line in open(path):
                line = line.strip()
                if not line.startswith("known:"):
                    continue
                fields = dict(tok.split("=", 1) for tok in line[6:].split() if "=" in tok)
                text = line[6:].strip()
                _KNOWN.append(dict(property=fields.get("property"), key=fields.get("key"), text=text))
    return _KNOWN


def is_known(prop, key):
    return any(k["property"] == prop and k["key"] == key for k in known_findings())


def import_hvsrpy():
    """Import hvsrpy from the tree under test (VF_REPO, default /repo)."""
    if REPO not in sys.path[:1]:
        sys.path.insert(0, REPO)
    import hvsrpy
    origin = os.path.abspath(hvsrpy.__file__)
    if not origin.startswith(REPO + os.sep):
        raise RuntimeError(f"hvsrpy imported from {origin}, expected under {REPO}")
    return hvsrpy


def fresh_hvsrpy():
    """A second, pristine copy of the hvsrpy package from the tree under test: new module objects, hence new
    module-level state (caches, defaults, registries). Used as the "first call ever" oracle for history
    properties; costs about 50 ms (numba kernels come from the on-disk cache)."""
    import_hvsrpy()
    saved = {k: v for k, v in sys.modules.items() if k == "hvsrpy" or k.startswith("hvsrpy.")}
    for k in saved:
        del sys.modules[k]
    try:
        import hvsrpy as copy
    finally:
        for k in list(sys.modules):
            if k == "hvsrpy" or k.startswith("hvsrpy."):
                del sys.modules[k]
        sys.modules.update(saved)
    origin = os.path.abspath(copy.__file__)
    if not origin.startswith(REPO + os.sep):
        raise RuntimeError(f"fresh hvsrpy imported from {origin}, expected under {REPO}")
    return copy


# -- child interpreter with another default text encoding ---------------------------------------------------

_FOREIGN = {}


def foreign_check(pid, case, env=None):
    """Evaluate ``case`` with property ``pid`` in a persistent child interpreter whose default text encoding is ASCII
    (LC_ALL=C, UTF-8 mode off): the situation of a Windows / legacy-locale installation, where ``open()`` without an
    explicit encoding does not speak UTF-8.  Raises Violation with the child's message; harness errors propagate as
    RuntimeError."""
    import atexit
    import subprocess
    key = pid
    w = _FOREIGN.get(key)
    if w is None or w.poll() is not None:
        e = dict(os.environ)
        e.update(LC_ALL="C", LANG="C", PYTHONUTF8="0", PYTHONCOERCECLOCALE="0", PYTHONIOENCODING="utf-8:surrogatepass")
        e.update(env or {})
        e["PYTHONPATH"] = VERIF_DIR + os.pathsep + e.get("PYTHONPATH", "")
        w = subprocess.Popen([sys.executable, "-m", "vf.worker", pid], cwd=VERIF_DIR, env=e, stdin=subprocess.PIPE,
                             stdout=subprocess.PIPE, stderr=subprocess.DEVNULL, text=True, encoding="utf-8", errors="surrogatepass")
        ready = json.loads(w.stdout.readline() or "{}")
        if ready.get("status") != "ready":
            raise RuntimeError(f"foreign-locale worker did not start: {ready}")
        w.encoding_name = ready.get("encoding")
        _FOREIGN[key] = w
        atexit.register(lambda: (w.stdin.close(), w.wait(timeout=10)) if w.poll() is None else None)
    w.stdin.write(json.dumps({"case": to_jsonable(case)}) + "\n")
    w.stdin.flush()
    line = w.stdout.readline()
    if not line:
        raise RuntimeError("foreign-locale worker died")
    res = json.loads(line)
    if res["status"] == "violation":
        raise Violation(f"in an interpreter whose default text encoding is {w.encoding_name}: {res['message']}")
    if res["status"] == "error":
        raise RuntimeError("foreign-locale worker error:\n" + res["error"])
    return res
