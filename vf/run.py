"""Runner: tiers, shards, seeds, replay, evidence.  See DESIGN.md section 1."""
import collections
import glob
import hashlib
import importlib
import json
import os
import subprocess
import sys
import time
import traceback

from . import core
from .core import Violation, Refusal, VERIF_DIR, REPO

OUT_DIR = os.environ.get("VF_OUT_DIR") or os.path.join(VERIF_DIR, "out")
EVID_DIR = os.environ.get("VF_EVIDENCE_DIR") or os.path.join(VERIF_DIR, "evidence")   # redirected by tools/mutate.py only
REPLAY_DIR = os.path.join(VERIF_DIR, "replays")
ALL_IDS = [f"C{i:02d}" for i in range(1, 21)]


def log(*a):
    print(*a, flush=True)


def numba_cache_dir():
    h = hashlib.sha1()
    for name in ("smoothing.py",):
        p = os.path.join(REPO, "hvsrpy", name)
        with open(p, "rb") as f:
            h.update(f.read())
    h.update(REPO.encode())
    d = os.path.join(VERIF_DIR, ".cache", "numba", h.hexdigest()[:16])
    os.makedirs(d, exist_ok=True)
    return d


def load_module(pid):
    return importlib.import_module(f"vf.props.{pid.lower()}")


def shorten(obj, maxlen=12):
    """Make a case readable as an evidence sample (long arrays truncated)."""
    obj = core.to_jsonable(obj)
    if isinstance(obj, dict):
        return {k: shorten(v, maxlen) for k, v in obj.items()}
    if isinstance(obj, list):
        if len(obj) > maxlen:
            return [shorten(v, maxlen) for v in obj[:maxlen]] + [f"... ({len(obj) - maxlen} more)"]
        return [shorten(v, maxlen) for v in obj]
    return obj


# ---------------------------------------------------------------------------
# one shard = one seeded Hypothesis run
# ---------------------------------------------------------------------------

class ShardState:
    def __init__(self):
        self.evaluations = 0
        self.nontrivial = set()
        self.labels = collections.Counter()
        self.samples = {}
        self.failures = []
        self.refusals = 0
        self.skipped_time = 0
        self.excluded_known = collections.Counter()


def run_case(mod, case, state=None):
    """Evaluate one case; returns the result dict of check_case."""
    res = mod.check_case(case) or {}
    labels = list(res.get("labels", []))
    nontrivial = bool(res.get("nontrivial", False))
    if state is not None:
        state.evaluations += 1
        for lab in labels:
            state.labels[lab] += 1
        for k in res.get("excluded_known", []):
            state.excluded_known[k] += 1
        if nontrivial:
            state.labels["nontrivial"] += 1
            h = core.case_hash(case)
            state.nontrivial.add(h)
        key = (nontrivial, labels[0] if labels else "")
        if key not in state.samples and len(state.samples) < 8:
            state.samples[key] = dict(case=shorten(case), labels=labels, nontrivial=nontrivial)
    return res


def shard_main(pid, tier, seed, shard, nshards, out_path):
    os.environ.setdefault("NUMBA_CACHE_DIR", numba_cache_dir())
    os.environ["VF_ROT"] = str(shard + 3 * seed)
    os.environ["VF_TIER"] = tier
    core.import_hvsrpy()
    import hypothesis
    from hypothesis import given, settings, HealthCheck, Phase
    mod = load_module(pid)
    total = int(os.environ.get("VF_EXAMPLES", mod.BUDGET[tier]))
    n_examples = max(1, total // nshards)
    time_limit = float(os.environ.get("VF_TIME_LIMIT", {"quick": 600, "thorough": 7200}[tier]))
    state = ShardState()
    t0 = time.time()
    phases = [Phase.generate] if tier == "quick" else [Phase.generate, Phase.shrink]
    if os.environ.get("VF_SHRINK") == "1":
        phases = [Phase.generate, Phase.shrink]

    def make_test(strategy, n, seed_value, use_phases, skip_first=False):
        calls = [0]
        n = n + 1 if skip_first else n

        @hypothesis.seed(seed_value)
        @settings(max_examples=n, database=None, deadline=None, derandomize=False,
                  report_multiple_bugs=False, phases=use_phases,
                  suppress_health_check=[HealthCheck.too_slow, HealthCheck.data_too_large,
                                         HealthCheck.large_base_example])
        @given(strategy)
        def test(case):
            calls[0] += 1
            if skip_first and calls[0] == 1:
                return          # Hypothesis always starts with the simplest example (every choice minimal): not a scale case
            if time.time() - t0 > time_limit:
                state.skipped_time += 1
                return
            try:
                run_case(mod, case, state)
            except Violation as v:
                state.failures.append((case, v))
                raise
        return test

    passes = [(mod.strategy(), n_examples, seed * 1000 + shard, phases, False)]
    # deployment-scale pass: a few cases per shard from the module's strategy_big() (sizes at which real
    # recordings arrive: 10^5-10^7 samples, 10^3-10^4 windows, long headers); never shrunk (cost)
    big_total = int(os.environ.get("VF_BIG", getattr(mod, "BIG", {}).get(tier, 0)))
    if big_total and hasattr(mod, "strategy_big"):
        n_big = big_total // nshards + (1 if shard < big_total % nshards else 0)
        if n_big:
            passes.append((mod.strategy_big(), n_big, seed * 1000 + shard + 500, [Phase.generate], True))

    result = dict(shard=shard, status="ok")
    try:
        for strategy, n, seed_value, use_phases, skip_first in passes:
            make_test(strategy, n, seed_value, use_phases, skip_first)()
    except Violation as v:
        case, v = state.failures[-1]
        result.update(status="violation", case=core.to_jsonable(case), message=v.message,
                      details=core.to_jsonable(v.details))
    except BaseException as e:  # harness error (incl. Hypothesis health checks, Flaky)
        tb = "".join(traceback.format_exception(type(e), e, e.__traceback__))
        frames = [ln for ln in tb.splitlines() if ln.lstrip().startswith(("File ", "raise ", "Error", type(e).__name__))][-12:]
        result.update(status="error", error=f"{type(e).__name__}: {str(e)[:600]}\n" + "\n".join(frames) + "\n...\n" + tb[-1500:])
    result.update(evaluations=state.evaluations, nontrivial=sorted(state.nontrivial),
                  labels=dict(state.labels), samples=list(state.samples.values()),
                  skipped_time=state.skipped_time, wall_s=time.time() - t0,
                  excluded_known=dict(state.excluded_known), n_failures_seen=len(state.failures))
    with open(out_path, "w") as f:
        json.dump(result, f)
    return 0


# ---------------------------------------------------------------------------
# parent
# ---------------------------------------------------------------------------

def save_failure(pid, case, message, details=None, seed=None, tier=None):
    os.makedirs(OUT_DIR, exist_ok=True)
    path = os.path.join(OUT_DIR, f"{pid}-{core.case_hash(case)}.json")
    with open(path, "w") as f:
        json.dump(dict(property=pid, message=message, details=details, seed=seed, tier=tier,
                       case=core.to_jsonable(case)), f, indent=1)
    return path


def run_replays(pid, mod, state):
    """Committed regression cases, run first in both tiers. Returns list of (path, message)."""
    bad = []
    files = sorted(glob.glob(os.path.join(REPLAY_DIR, pid, "*.json")))
    for path in files:
        with open(path) as f:
            doc = json.load(f)
        try:
            run_case(mod, core.revive(doc["case"]), state)
        except Violation as v:
            bad.append((path, v.message))
    return len(files), bad


def write_evidence(pid, mod, tier, seed, merged, wall, violations, extra=None):
    os.makedirs(EVID_DIR, exist_ok=True)
    coverage = dict(
        evaluations=merged["evaluations"],
        distinct_nontrivial=len(merged["nontrivial"]),
        rule=mod.RULE,
        samples=merged["samples"][:10],
        labels=dict(sorted(merged["labels"].items())),
        shards=merged["shards"],
        replays_run=merged["replays"],
        skipped_after_time_limit=merged["skipped_time"],
        excluded_known=merged["excluded_known"],
        exhaustive=False,
    )
    if extra:
        coverage.update(extra)
    doc = dict(property_id=pid, tier=tier, seed=seed, level="exploration", coverage=coverage,
               assumptions=list(getattr(mod, "ASSUMPTIONS", [])), wall_s=round(wall, 2),
               violations=violations)
    path = os.path.join(EVID_DIR, f"{pid}.json")
    try:
        import jsonschema
        with open("/root/.vp/EVIDENCE.schema.json") as f:
            schema = json.load(f)
        errors = list(jsonschema.Draft202012Validator(schema).iter_errors(doc))
        if errors and violations == 0:
            log(f"evidence does not validate: {errors[0].message}")
    except (ImportError, OSError):
        pass
    with open(path, "w") as f:
        json.dump(doc, f, indent=1)
    return path


def parent_main(pid, tier):
    t0 = time.time()
    seed = int(os.environ.get("VERIF_SEED", "1"))
    os.environ.setdefault("NUMBA_CACHE_DIR", numba_cache_dir())
    core.import_hvsrpy()
    mod = load_module(pid)
    for k in core.known_findings():
        if k["property"] == pid:
            log(f"KNOWN-FINDING: {k['text']}")
    if hasattr(mod, "warmup"):
        mod.warmup()
    # 1. regression tier (committed replays)
    rstate = ShardState()
    try:
        n_replays, bad = run_replays(pid, mod, rstate)
    except Exception:
        traceback.print_exc()
        log(f"HARNESS-ERROR property={pid} while running committed replays")
        return 2
    # 2. generated tier
    nshards = int(os.environ.get("VF_SHARDS", mod.SHARDS[tier] if hasattr(mod, "SHARDS") else (8 if tier == "quick" else 16)))
    os.makedirs(OUT_DIR, exist_ok=True)
    procs = []
    for s in range(nshards):
        out_path = os.path.join(OUT_DIR, f".shard-{pid}-{os.getpid()}-{s}.json")
        cmd = [sys.executable, "-m", "vf.run", pid, "shard", tier, str(seed), str(s), str(nshards), out_path]
        procs.append((s, out_path, subprocess.Popen(cmd, cwd=VERIF_DIR)))
    merged = dict(evaluations=rstate.evaluations, nontrivial=set(rstate.nontrivial),
                  labels=collections.Counter(rstate.labels), samples=[], shards=nshards,
                  replays=n_replays, skipped_time=0, excluded_known=collections.Counter())
    violations, errors = [], []
    for s, out_path, p in procs:
        rc = p.wait()
        if not os.path.exists(out_path):
            errors.append(f"shard {s} exited {rc} without a result")
            continue
        with open(out_path) as f:
            r = json.load(f)
        os.unlink(out_path)
        merged["evaluations"] += r["evaluations"]
        merged["nontrivial"].update(r["nontrivial"])
        merged["labels"].update(r["labels"])
        merged["skipped_time"] += r["skipped_time"]
        merged["excluded_known"].update(r.get("excluded_known", {}))
        merged["samples"].extend(r["samples"])
        if r["status"] == "violation":
            violations.append(r)
        elif r["status"] == "error":
            errors.append(f"shard {s}: {r['error']}")
    # order samples: non-trivial first, distinct first labels
    seen, ordered = set(), []
    for smp in sorted(merged["samples"], key=lambda x: (not x["nontrivial"], str(x["labels"]))):
        key = (smp["nontrivial"], tuple(smp["labels"][:2]))
        if key in seen:
            continue
        seen.add(key)
        ordered.append(smp)
    merged["samples"] = ordered or list(rstate.samples.values())
    merged["excluded_known"] = dict(merged["excluded_known"])
    wall = time.time() - t0
    n_viol = len(violations) + len(bad)
    write_evidence(pid, mod, tier, seed, merged, wall, n_viol, getattr(mod, "extra_coverage", lambda m: None)(merged))
    log(f"[{pid}] tier={tier} seed={seed} shards={nshards} evaluations={merged['evaluations']} "
        f"distinct_nontrivial={len(merged['nontrivial'])} wall={wall:.1f}s")
    top = sorted(merged["labels"].items(), key=lambda kv: -kv[1])[:24]
    log(f"[{pid}] labels: " + ", ".join(f"{k}={v}" for k, v in top))
    if merged["skipped_time"]:
        log(f"[{pid}] time limit reached: {merged['skipped_time']} generated cases skipped (inconclusive, not a violation)")
    if errors:
        for e in errors:
            log(f"HARNESS-ERROR property={pid}\n{e}")
    for path, message in bad:
        log(f"VIOLATION property={pid} replay={path}")
        log(f"  (committed regression case) {message}")
    reported = set()
    for r in violations:
        path = save_failure(pid, r["case"], r["message"], r.get("details"), seed, tier)
        if path in reported:
            continue
        reported.add(path)
        log(f"VIOLATION property={pid} replay={path}")
        log(f"  {r['message']}")
    if n_viol:
        return 1
    if errors:
        return 2
    return 0


def replay_main(pid, path):
    os.environ["NUMBA_CACHE_DIR"] = numba_cache_dir()
    core.import_hvsrpy()
    mod = load_module(pid)
    with open(path) as f:
        doc = json.load(f)
    case = core.revive(doc["case"] if isinstance(doc, dict) and "case" in doc else doc)
    try:
        res = run_case(mod, case)
    except Violation as v:
        log(f"VIOLATION property={pid} replay={os.path.abspath(path)}")
        log(f"  {v.message}")
        if v.details:
            log("  details: " + json.dumps(core.to_jsonable(v.details))[:2000])
        return 1
    log(f"[{pid}] replay {path}: property held ({res})")
    return 0


def setup_main():
    ok = True
    for name in ("hypothesis", "jsonschema", "numpy", "scipy", "numba", "obspy", "matplotlib", "shapely", "pandas", "click"):
        try:
            importlib.import_module(name)
        except ImportError:
            ok = False
            log(f"missing: {name}")
            if name in ("hypothesis", "jsonschema"):
                deps = os.path.join(VERIF_DIR, ".deps")
                rc = subprocess.call([sys.executable, "-m", "pip", "install", "--no-index", "--find-links",
                                      "/opt/veriftools/wheels", "--target", deps, name])
                ok = rc == 0
    try:
        os.environ["NUMBA_CACHE_DIR"] = numba_cache_dir()
        hv = core.import_hvsrpy()
        log(f"hvsrpy {hv.__version__} from {hv.__file__}")
    except Exception as e:
        log(f"cannot import hvsrpy: {e}")
        ok = False
    return 0 if ok else 2


def main(argv):
    if not argv:
        log(__doc__)
        return 2
    if argv[0] == "setup":
        return setup_main()
    pid = argv[0].upper()
    mode = argv[1] if len(argv) > 1 else os.environ.get("VERIF_TIER", "quick")
    try:
        if mode == "shard":
            tier, seed, shard, nshards, out_path = argv[2], int(argv[3]), int(argv[4]), int(argv[5]), argv[6]
            return shard_main(pid, tier, seed, shard, nshards, out_path)
        if mode == "replay":
            return replay_main(pid, argv[2])
        if mode in ("quick", "thorough"):
            return parent_main(pid, mode)
    except Exception:
        traceback.print_exc()
        log(f"HARNESS-ERROR property={pid}")
        return 2
    log(f"unknown mode {mode}")
    return 2


if __name__ == "__main__":
    sys.exit(main(sys.argv[1:]))
