"""Shared Hypothesis strategies.  Every random choice is drawn by Hypothesis;
large arrays are described by *recipes* (small JSON dicts) and expanded by
pure functions, so that cases shrink, hash and replay as plain JSON."""
import math
import os

import numpy as np
from hypothesis import strategies as st

# realistic time steps; several reciprocals are not exact in binary
DTS = [1 / 50, 1 / 75, 1 / 100, 1 / 128, 1 / 150, 1 / 200, 1 / 250, 1 / 300, 1 / 500, 0.004, 0.0078125, 0.02]
FS_INT = [20, 40, 50, 60, 75, 100, 120, 128, 150, 200, 250, 300, 500, 1000]

finite = dict(allow_nan=False, allow_infinity=False)


def floats(lo, hi, **kw):
    return st.floats(min_value=lo, max_value=hi, **finite, **kw)


def log_floats(lo, hi):
    """Log-uniform floats in [lo, hi]."""
    return floats(math.log10(lo), math.log10(hi)).map(lambda e: float(10.0 ** e))


seeds32 = st.integers(0, 2 ** 32 - 1)


def choice(seq):
    """sampled_from with the list rotated by the shard index (VF_ROT): Hypothesis favours early
    elements, rotating per shard balances the union of the shards. The case stores the value."""
    seq = list(seq)
    rot = int(os.environ.get("VF_ROT", "0")) % len(seq)
    return st.sampled_from(seq[rot:] + seq[:rot])


def chance(k):
    """True with probability about 1/k (st.integers is biased towards 0, sampled_from is not)."""
    return st.sampled_from([True] + [False] * (k - 1))


def signed(lo, hi):
    """Floats of either sign with magnitude in [lo, hi] (no zeros, no subnormals)."""
    return st.builds(lambda neg, v: -v if neg else v, st.booleans(), floats(lo, hi))


COLLIDERS = ["ulp+", "ulp-", "rel+4e-7", "rel-4e-7", "float32", "x2^-61", "x2^61", "abs+1e-9", "round3", "int-part"]


def collide(x, how):
    """A value different from ``x`` that a lossy cache key would confuse with it: neighbouring floats, values equal
    to 6 significant digits (``%g``) or in float32, values with the same CPython ``hash()`` (x * 2**+-61), the same
    rounding to 3 decimals or the same integer part. Pure function; ``how`` is drawn from COLLIDERS by Hypothesis."""
    x = float(x)
    if not math.isfinite(x) or abs(x) > 1e15:
        return x
    if how == "ulp+":
        y = float(np.nextafter(x, np.inf))
    elif how == "ulp-":
        y = float(np.nextafter(x, -np.inf))
    elif how == "rel+4e-7":
        y = x * (1 + 4e-7)
    elif how == "rel-4e-7":
        y = x * (1 - 4e-7)
    elif how == "float32":
        y = float(np.float32(x))
        if y == x:
            y = x * (1 + 3e-8)
    elif how == "x2^-61":
        y = x * 2.0 ** -61
    elif how == "x2^61":
        y = x * 2.0 ** 61
    elif how == "abs+1e-9":
        y = x + 1e-9
    elif how == "round3":
        y = round(x, 3)
        if y == x:
            y = x + 4e-4
    elif how == "int-part":
        y = math.floor(x) + (0.25 if x - math.floor(x) >= 0.5 else 0.75)
    else:
        raise KeyError(how)
    return y


def big_size(lo, hi):
    """Log-uniform integer sizes for the deployment-scale pass, with the neighbourhood of powers of two (where
    blocked / chunked code changes path) drawn as often as the bulk."""
    def near_pow2(args):
        e, off = args
        return int(min(hi, max(lo, 2 ** e + off)))
    e_lo, e_hi = max(1, math.ceil(math.log2(lo))), math.floor(math.log2(hi))
    l_lo, l_hi = math.log2(lo), math.log2(hi)
    # sampled_from is uniform (st.floats / st.integers favour their bounds)
    return st.one_of(
        st.tuples(st.sampled_from(range(97)), st.sampled_from(range(13))).map(
            lambda kj: int(min(hi, max(lo, round(2.0 ** (l_lo + (l_hi - l_lo) * kj[0] / 96.0)) + kj[1])))),
        st.tuples(st.sampled_from(range(e_lo, max(e_lo, e_hi) + 1)), st.sampled_from([-2, -1, 0, 1, 2, 3])).map(near_pow2),
    )


# ---------------------------------------------------------------------------
# signal recipes
# ---------------------------------------------------------------------------

@st.composite
def signal_recipe(draw, kinds=("noise", "sines", "chirp", "spikes", "const_noise", "raw"), scale_exp=(-9, 9),
                  allow_burst=True):
    kind = draw(choice(kinds))
    r = dict(kind=kind, scale_exp=draw(st.integers(*scale_exp)) if scale_exp else 0)
    if kind in ("noise", "const_noise", "spikes"):
        r["seed"] = draw(seeds32)
    if kind == "const_noise":
        r["offset"] = draw(floats(-5, 5))
        r["noise_level"] = draw(st.sampled_from([1e-3, 1e-1, 1.0]))
    if kind == "sines":
        r["tones"] = draw(st.lists(st.tuples(floats(0.01, 0.45), floats(0.1, 3.0), floats(0, 6.283)),
                                   min_size=1, max_size=4))
        r["seed"] = draw(seeds32)
        r["noise_level"] = draw(st.sampled_from([0.0, 1e-3, 0.1]))
    if kind == "chirp":
        r["f0"] = draw(floats(0.005, 0.2))
        r["f1"] = draw(floats(0.05, 0.45))
    if kind == "spikes":
        r["n_spikes"] = draw(st.integers(1, 6))
    if kind == "raw":
        # magnitudes bounded away from zero: an all-zero component makes every ratio degenerate (0/0)
        r["values"] = draw(st.lists(st.builds(lambda neg, v: -v if neg else v, st.booleans(), floats(1e-3, 4)),
                                    min_size=1, max_size=24))
    r["trend"] = draw(st.sampled_from([0.0, 0.0, 0.5, -2.0]))
    if allow_burst and draw(st.booleans()):
        r["burst"] = [draw(floats(0, 1)), draw(floats(0.02, 0.3)), draw(st.sampled_from([3.0, 10.0, 50.0, 0.05]))]
    return r


def expand_signal(r, n):
    """Pure function recipe -> float64 array of length n."""
    kind = r["kind"]
    t = np.arange(n, dtype=float)
    if kind == "noise":
        x = np.random.Generator(np.random.PCG64(r["seed"])).standard_normal(n)
    elif kind == "const_noise":
        x = r["offset"] + r["noise_level"] * np.random.Generator(np.random.PCG64(r["seed"])).standard_normal(n)
    elif kind == "sines":
        x = np.zeros(n)
        for (fr, amp, ph) in r["tones"]:
            x += amp * np.sin(2 * np.pi * fr * t + ph)
        if r.get("noise_level", 0.0) > 0:
            x += r["noise_level"] * np.random.Generator(np.random.PCG64(r["seed"])).standard_normal(n)
    elif kind == "chirp":
        f = np.linspace(r["f0"], r["f1"], n)
        x = np.sin(2 * np.pi * np.cumsum(f))
    elif kind == "spikes":
        g = np.random.Generator(np.random.PCG64(r["seed"]))
        x = 0.01 * g.standard_normal(n)
        idx = g.integers(0, n, size=r["n_spikes"])
        x[idx] += g.choice([-1.0, 1.0], size=r["n_spikes"]) * g.uniform(1, 5, size=r["n_spikes"])
    elif kind == "raw":
        v = np.asarray(r["values"], dtype=float)
        x = np.resize(v, n)
    else:
        raise KeyError(kind)
    if r.get("trend"):
        x = x + r["trend"] * (t / max(n - 1, 1))
    if r.get("burst"):
        pos, length, gain = r["burst"]
        i0 = int(pos * (n - 1))
        i1 = min(n, i0 + max(1, int(length * n)))
        x = x.copy()
        x[i0:i1] *= gain
    return x * (10.0 ** r.get("scale_exp", 0))


@st.composite
def recording_recipe(draw, n=None, n_range=(16, 600), dt=None, scale_exp=(-9, 9), kinds=None, dfn_range=(-720, 720)):
    """Three component recipes of equal length plus dt and orientation."""
    n = draw(st.integers(*n_range)) if n is None else n
    dt = draw(choice(DTS)) if dt is None else dt
    kw = dict(scale_exp=None)
    if kinds:
        kw["kinds"] = kinds
    exp = draw(st.integers(*scale_exp)) if scale_exp else 0
    comps = []
    for _ in range(3):
        c = draw(signal_recipe(**kw))
        c["scale_exp"] = exp + draw(st.integers(-1, 1))
        comps.append(c)
    dfn = draw(st.one_of(st.just(0.0), floats(*dfn_range), st.sampled_from([90.0, 180.0, 270.0, 360.0, -90.0, 400.0])))
    return dict(n=n, dt=dt, ns=comps[0], ew=comps[1], vt=comps[2], degrees_from_north=dfn)


def expand_recording_arrays(r):
    return (expand_signal(r["ns"], r["n"]), expand_signal(r["ew"], r["n"]), expand_signal(r["vt"], r["n"]))


def build_recording(hvsrpy, r, meta=None):
    ns, ew, vt = expand_recording_arrays(r)
    TS = hvsrpy.TimeSeries
    return hvsrpy.SeismicRecording3C(TS(ns, r["dt"]), TS(ew, r["dt"]), TS(vt, r["dt"]),
                                     degrees_from_north=r.get("degrees_from_north", 0.0), meta=meta)


# ---------------------------------------------------------------------------
# smoothing / processing settings
# ---------------------------------------------------------------------------

OPERATORS = ["konno_and_ohmachi", "parzen", "savitzky_and_golay", "linear_rectangular",
             "log_rectangular", "linear_triangular", "log_triangular"]

DEFAULT_BW = {"konno_and_ohmachi": 40.0, "parzen": 0.5, "linear_rectangular": 0.5, "log_rectangular": 0.05,
              "linear_triangular": 0.5, "log_triangular": 0.05}


@st.composite
def operator_and_bandwidth(draw, operators=OPERATORS):
    op = draw(choice(operators))
    if op == "savitzky_and_golay":
        bw = draw(st.sampled_from([1, 3, 5, 7, 9, 11, 13, 15, 17, 19, 21]))
        if draw(st.booleans()):
            bw = float(bw)
    else:
        bw = DEFAULT_BW[op] * draw(log_floats(10 ** -0.5, 10 ** 0.5))
        if draw(chance(4)):
            bw = DEFAULT_BW[op]
    return op, bw


def min_center_frequency(op, bw, df):
    """Smallest centre frequency at which the operator's window is guaranteed
    to contain at least one spectral sample of an FFT grid with spacing df
    (the implicit precondition of process(): an empty window gives 0/0)."""
    if op == "savitzky_and_golay":
        return (int(bw) // 2 + 1.6) * df
    if op in ("konno_and_ohmachi",):
        half = 10 ** (3.0 / bw)          # window is fc/half .. fc*half
        return max(1.6 * df, 1.05 * df / (half - 1 / half))
    if op in ("log_rectangular", "log_triangular"):
        half = 10 ** (bw / 2.0)
        return max(1.6 * df, 1.3 * df / (half - 1 / half))
    if op == "parzen":
        lim = math.sqrt(6.0) * (math.pi * 280 / 302) / bw
        return max(1.6 * df, 0.0) if 2 * lim > 1.05 * df else None
    if op in ("linear_rectangular", "linear_triangular"):
        return 1.6 * df if bw > 1.3 * df else None
    raise KeyError(op)


# ---------------------------------------------------------------------------
# processing specs (JSON) -> hvsrpy settings objects
# ---------------------------------------------------------------------------

FD_METHODS = ["arithmetic_mean", "squared_average", "quadratic_mean", "root_mean_square",
              "effective_amplitude_spectrum", "geometric_mean", "total_horizontal_energy",
              "vector_summation", "maximum_horizontal_value"]
ALL_METHODS = FD_METHODS + ["single_azimuth", "rotdpp", "azimuthal", "diffuse_field"]
POLICIES = ["frequency_domain_resampling", "keeping_smallest_time_step", "keeping_majority_time_step"]


def family(method):
    if method in ("squared_average", "quadratic_mean", "root_mean_square", "effective_amplitude_spectrum"):
        return "squared_average"
    if method in ("total_horizontal_energy", "vector_summation"):
        return "total_horizontal_energy"
    return method


@st.composite
def center_frequencies(draw, op, bw, df, fnyq, min_size=1, max_size=40, fmin_floor=None):
    """Sorted distinct centre frequencies inside the band where every window is non-empty."""
    fmin = min_center_frequency(op, bw, df)
    if fmin is None:
        return None
    if fmin_floor is not None:
        fmin = max(fmin, fmin_floor)
    fmax = fnyq * (1 - 1e-9)
    if op == "savitzky_and_golay":
        fmax = fnyq - (int(bw) // 2 + 1.6) * df
    if not fmin < fmax:
        return None
    kind = draw(st.sampled_from(["geom", "lin", "free", "free", "single"]))
    if kind == "single":
        return [draw(floats(fmin, fmax))]
    if kind in ("geom", "lin"):
        a = draw(floats(fmin, fmax))
        b = draw(floats(fmin, fmax))
        lo, hi = min(a, b), max(a, b)
        k = draw(st.integers(max(min_size, 2), max_size))
        if hi <= lo * (1 + 1e-6):
            return [float(lo)]
        vals = np.geomspace(lo, hi, k) if kind == "geom" else np.linspace(lo, hi, k)
        return sorted(set(float(v) for v in vals))
    vals = draw(st.lists(log_floats(fmin, fmax), min_size=min_size, max_size=max_size, unique=True))
    order = draw(st.sampled_from(["asc", "asc", "asc", "desc", "as-drawn"]))
    if order == "asc":
        return sorted(vals)
    if order == "desc":
        return sorted(vals, reverse=True)
    return vals


@st.composite
def processing_spec(draw, n_max, methods=ALL_METHODS, operators=OPERATORS, policy=None,
                    fft_choices=(None, None, 2 ** 15, 2 ** 16, 256, 64)):
    """JSON description of a processing configuration (without centre frequencies: the caller draws
    them with center_frequencies() from the largest bin spacing 1/(nfft*dt_min) and the smallest Nyquist)."""
    method = draw(choice(methods))
    fft_n = draw(st.sampled_from(fft_choices))
    nfft = 2 ** 15
    while nfft <= n_max:
        nfft *= 2
    if isinstance(fft_n, int):
        nfft = max(nfft, fft_n)
    op, bw = draw(operator_and_bandwidth(operators))
    spec = dict(method=method, op=op, bw=bw, width=draw(st.one_of(floats(0.001, 1), st.sampled_from([0.0, 0.1, 0.2, 1.0]))),
                fft_n=fft_n, policy=policy or draw(choice(POLICIES)))
    spec["_nfft"] = nfft
    if method == "single_azimuth":
        spec["azimuth"] = draw(st.one_of(floats(-360, 720), st.sampled_from([0.0, 45.0, 90.0, 180.0, 20.0])))
    if method in ("rotdpp", "azimuthal"):
        lo, hi = (0.0, 179.999) if method == "azimuthal" else (-180.0, 360.0)
        spec["azimuths"] = draw(st.lists(st.one_of(floats(lo, hi), st.sampled_from([0.0, 30.0, 45.0, 90.0, 135.0])),
                                         min_size=1, max_size=8, unique=True))
        if method == "azimuthal":
            spec["azimuths"] = sorted(spec["azimuths"])
    if method == "rotdpp":
        spec["percentile"] = draw(st.one_of(floats(0, 100), st.sampled_from([0.0, 50.0, 100.0])))
    spec["fcs_as"] = draw(st.sampled_from(["list", "ndarray", "tuple"]))
    spec["az_as"] = draw(st.sampled_from(["list", "ndarray"]))
    return spec


def make_settings(hvsrpy, spec, fcs=None):
    """Build a fresh hvsrpy settings object from a JSON spec."""
    fcs = spec["fcs"] if fcs is None else fcs
    as_ = spec.get("fcs_as", "ndarray")
    fcs_obj = np.array(fcs, dtype=float) if as_ == "ndarray" else (list(fcs) if as_ == "list" else tuple(fcs))
    fft_n = spec.get("fft_n")
    fft = None if fft_n is None else ({"n": None} if fft_n == "record-length" else {"n": int(fft_n)})
    common = dict(window_type_and_width=["tukey", spec["width"]],
                  smoothing=dict(operator=spec["op"], bandwidth=spec["bw"], center_frequencies_in_hz=fcs_obj),
                  fft_settings=fft)
    policy = spec.get("policy")
    method = spec["method"]
    azs = spec.get("azimuths")
    if azs is not None:
        azs = np.array(azs, dtype=float) if spec.get("az_as") == "ndarray" else list(azs)
    if method == "azimuthal":
        s = hvsrpy.HvsrAzimuthalProcessingSettings(azimuths_in_degrees=azs, **common)
    elif method == "diffuse_field":
        s = hvsrpy.HvsrDiffuseFieldProcessingSettings(**common)
    elif method == "psd":
        if spec.get("psd_smoothing") is False:
            common["smoothing"] = None
            s = hvsrpy.PsdProcessingSettings(window_type_and_width=common["window_type_and_width"], fft_settings=fft)
            s.smoothing = None
        else:
            s = hvsrpy.PsdProcessingSettings(**common)
    elif method == "single_azimuth":
        s = hvsrpy.HvsrTraditionalSingleAzimuthProcessingSettings(azimuth_in_degrees=spec["azimuth"], **common)
    elif method == "rotdpp":
        s = hvsrpy.HvsrTraditionalRotDppProcessingSettings(azimuths_in_degrees=azs,
                                                           ppth_percentile_for_rotdpp_computation=spec["percentile"], **common)
    else:
        s = hvsrpy.HvsrTraditionalProcessingSettings(method_to_combine_horizontals=method, **common)
    if policy is not None:
        s.handle_dissimilar_time_steps_by = policy
    return s
