"""Stand-alone library pipeline for one file (run in a fresh interpreter by the C19 check):
read -> preprocess -> process -> write with settings freshly loaded from the two settings files."""
import os
import sys


def main(argv):
    fname, pre_file, proc_file, out_csv, dist_mc, dist_fn = argv
    repo = os.path.abspath(os.environ.get("VF_REPO", "/repo"))
    sys.path.insert(0, repo)
    import hvsrpy
    assert os.path.abspath(hvsrpy.__file__).startswith(repo + os.sep), hvsrpy.__file__
    pre = hvsrpy.read_settings_object_from_file(pre_file)
    proc = hvsrpy.read_settings_object_from_file(proc_file)
    recs = hvsrpy.read([[fname]])
    recs = hvsrpy.preprocess(recs, pre)
    res = hvsrpy.process(recs, proc)
    hvsrpy.write_hvsr_object_to_file(res, out_csv, distribution_mc=dist_mc, distribution_fn=dist_fn)
    return 0


if __name__ == "__main__":
    sys.exit(main(sys.argv[1:]))
