"""Reference models written from the published definitions (no hvsrpy imports).

Everything here is deliberately independent of the code under test: plain
vectorised numpy / scipy, explicit formulas, no shared helpers."""
import math

import numpy as np
from scipy.signal.windows import tukey as _tukey

EDGE_RTOL = 1e-9   # a sample this close to a truncation limit may be in or out

OPERATORS = ["konno_and_ohmachi", "parzen", "savitzky_and_golay", "linear_rectangular",
             "log_rectangular", "linear_triangular", "log_triangular"]
NONNEG_OPERATORS = [op for op in OPERATORS if op != "savitzky_and_golay"]


# ---------------------------------------------------------------------------
# smoothing
# ---------------------------------------------------------------------------

def _near(x, lim):
    return np.abs(x - lim) <= EDGE_RTOL * np.maximum(np.abs(lim), 1e-300)


def ref_weights(name, f, fc, bw):
    """Kernel weights over the grid ``f`` for centre ``fc``.

    Returns (w, ambiguous): ``ambiguous`` marks grid samples lying within
    EDGE_RTOL of a truncation limit with a non-zero weight there (they may
    legitimately be counted in or out)."""
    f = np.asarray(f, dtype=float)
    w = np.zeros_like(f)
    amb = np.zeros(f.shape, dtype=bool)
    if fc < 1e-6:
        return w, amb
    ok = f >= 1e-6
    d = f - fc
    with np.errstate(all="ignore"):
        ratio = f / fc
        if name == "konno_and_ohmachi":
            up, lo = 10.0 ** (3.0 / bw), 10.0 ** (-3.0 / bw)
            x = bw * np.log10(ratio)
            k = np.where(np.abs(d) < 1e-6, 1.0, (np.sin(x) / x) ** 4)
            inwin = ok & (ratio <= up) & (ratio >= lo)
            edge = ok & (_near(ratio, up) | _near(ratio, lo))
        elif name == "parzen":
            a = math.pi * 280.0 / (2.0 * 151.0)
            lim = math.sqrt(6.0) * a / bw
            x = a * d / bw
            k = np.where(np.abs(d) < 1e-6, 1.0, (np.sin(x) / x) ** 4)
            inwin = ok & (np.abs(d) <= lim)
            edge = ok & _near(np.abs(d), lim)
        elif name == "linear_rectangular":
            k = np.ones_like(f)
            inwin = ok & (np.abs(d) <= bw / 2.0)
            edge = ok & _near(np.abs(d), bw / 2.0)
        elif name == "linear_triangular":
            k = 1.0 - np.abs(d) * (2.0 / bw)
            inwin = ok & (np.abs(d) <= bw / 2.0)
            edge = ok & _near(np.abs(d), bw / 2.0)
        elif name == "log_rectangular":
            up, lo = 10.0 ** (bw / 2.0), 10.0 ** (-bw / 2.0)
            k = np.ones_like(f)
            inwin = ok & (ratio >= lo) & (ratio <= up)
            edge = ok & (_near(ratio, up) | _near(ratio, lo))
        elif name == "log_triangular":
            up, lo = 10.0 ** (bw / 2.0), 10.0 ** (-bw / 2.0)
            k = 1.0 - np.abs(np.log10(ratio)) * (2.0 / bw)
            inwin = ok & (ratio >= lo) & (ratio <= up)
            edge = ok & (_near(ratio, up) | _near(ratio, lo))
        else:
            raise KeyError(name)
    k = np.where(np.isfinite(k), k, 0.0)
    w[inwin] = k[inwin]
    # an edge sample only matters if the kernel is not (numerically) zero there
    amb = edge & (np.abs(k) > 1e-7)
    # the f == 1e-6 exclusion threshold itself
    amb |= _near(f, 1e-6)
    return w, amb


def sg_reference_coefficients(m):
    """Centre-value weights of the least-squares quadratic over m equally spaced points."""
    h = (m - 1) // 2
    xs = np.arange(-h, h + 1, dtype=float)
    if m == 1:
        return np.array([1.0])
    deg = min(2, m - 1)
    A = np.vander(xs, deg + 1, increasing=True)
    return np.linalg.pinv(A)[0]


def ref_smooth(name, f, spec, fcs, bw):
    """Reference smoothing.  Returns (out, ambiguous_columns)."""
    f = np.asarray(f, dtype=float)
    spec = np.atleast_2d(np.asarray(spec, dtype=float))
    fcs = np.asarray(fcs, dtype=float)
    out = np.zeros((spec.shape[0], len(fcs)))
    amb_cols = np.zeros(len(fcs), dtype=bool)
    if name == "savitzky_and_golay":
        m = int(bw)
        h = (m - 1) // 2
        df = f[1] - f[0]
        coef = sg_reference_coefficients(m)
        for j, fc in enumerate(fcs):
            pos = (fc - f[0]) / df
            if abs(abs(pos - math.floor(pos)) - 0.5) < 1e-6:
                amb_cols[j] = True      # rounding of the nearest bin is a knife edge
                continue
            i = int(np.round(pos))
            if i - h < 1 or i + h > len(f) - 1:
                continue
            out[:, j] = spec[:, i - h:i + h + 1] @ coef
        return out, amb_cols
    for j, fc in enumerate(fcs):
        w, amb = ref_weights(name, f, fc, bw)
        if amb.any() or abs(fc - 1e-6) <= 1e-15:
            amb_cols[j] = True
            continue
        s = w.sum()
        if s > 0:
            out[:, j] = spec @ w / s
    return out, amb_cols


def contributing(name, f, fc, bw):
    """Boolean mask of grid samples with a positive weight (non-negative kernels)."""
    w, amb = ref_weights(name, f, fc, bw)
    return w > 0, amb.any()


# ---------------------------------------------------------------------------
# HVSR pipeline
# ---------------------------------------------------------------------------

SQUARED_AVERAGE = ("squared_average", "quadratic_mean", "root_mean_square", "effective_amplitude_spectrum")
TOTAL_ENERGY = ("total_horizontal_energy", "vector_summation")
FD_METHODS = ("arithmetic_mean",) + SQUARED_AVERAGE + ("geometric_mean",) + TOTAL_ENERGY + ("maximum_horizontal_value",)


def taper(n, width):
    return _tukey(n, alpha=width)


def amp_spectrum(x, width, nfft):
    x = np.asarray(x, dtype=float)
    return np.abs(np.fft.rfft(x * taper(len(x), width), nfft))


def combine_fd(method, a_ns, a_ew):
    if method == "arithmetic_mean":
        return (a_ns + a_ew) / 2.0
    if method in SQUARED_AVERAGE:
        return np.sqrt((a_ns ** 2 + a_ew ** 2) / 2.0)
    if method == "geometric_mean":
        return np.sqrt(a_ns * a_ew)
    if method in TOTAL_ENERGY:
        return np.sqrt(a_ns ** 2 + a_ew ** 2)
    if method == "maximum_horizontal_value":
        return np.maximum(a_ns, a_ew)
    raise KeyError(method)


def closed_form(method, A, B, C, azimuth=None, azimuths=None, percentile=None):
    """HVSR of proportional components ns=A*s, ew=B*s, vt=C*s."""
    A, B, C = float(A), float(B), float(C)
    if method == "arithmetic_mean":
        h = (abs(A) + abs(B)) / 2.0
    elif method in SQUARED_AVERAGE:
        h = math.sqrt((A * A + B * B) / 2.0)
    elif method == "geometric_mean":
        h = math.sqrt(abs(A * B))
    elif method in TOTAL_ENERGY or method == "diffuse_field":
        h = math.sqrt(A * A + B * B)
    elif method == "maximum_horizontal_value":
        h = max(abs(A), abs(B))
    elif method == "single_azimuth":
        r = math.radians(azimuth)
        h = abs(A * math.cos(r) + B * math.sin(r))
    elif method == "rotdpp":
        vals = [abs(A * math.cos(math.radians(a)) + B * math.sin(math.radians(a))) for a in azimuths]
        h = float(np.percentile(np.array(vals), percentile))
    else:
        raise KeyError(method)
    return h / abs(C)


def ref_hvsr(ns, ew, vt, dt, method, op, bw, fcs, width, nfft, azimuth=None, azimuths=None, percentile=None):
    """Reference HVSR curve of one window.  Returns (curve, ambiguous_columns)."""
    f = np.fft.rfftfreq(nfft, dt)
    ns = np.asarray(ns, dtype=float)
    ew = np.asarray(ew, dtype=float)
    V = amp_spectrum(vt, width, nfft)
    if method in FD_METHODS:
        H = combine_fd(method, amp_spectrum(ns, width, nfft), amp_spectrum(ew, width, nfft))
    elif method == "single_azimuth":
        r = math.radians(azimuth)
        H = amp_spectrum(ns * math.cos(r) + ew * math.sin(r), width, nfft)
    elif method == "rotdpp":
        Hs = np.array([amp_spectrum(ns * math.cos(math.radians(a)) + ew * math.sin(math.radians(a)), width, nfft)
                       for a in azimuths])
        sh, amb1 = ref_smooth(op, f, Hs, fcs, bw)
        sv, amb2 = ref_smooth(op, f, V, fcs, bw)
        with np.errstate(all="ignore"):
            return np.percentile(sh, percentile, axis=0) / sv[0], amb1 | amb2
    else:
        raise KeyError(method)
    sh, amb1 = ref_smooth(op, f, H, fcs, bw)
    sv, amb2 = ref_smooth(op, f, V, fcs, bw)
    with np.errstate(all="ignore"):
        return sh[0] / sv[0], amb1 | amb2


def dynamic_range(components, dt, width, nfft, op, bw, fcs):
    """Per centre frequency: spectral peak of a component over its smoothed level there (max over
    components).  FFT rounding noise is ~eps x peak, so relations between *separately transformed*
    series hold only to ~eps x this factor."""
    f = np.fft.rfftfreq(nfft, dt)
    out = np.ones(len(fcs))
    for x in components:
        S = amp_spectrum(x, width, nfft)
        sm, _ = ref_smooth(op, f, S, fcs, bw)
        out = np.maximum(out, float(S.max()) / np.maximum(np.abs(sm[0]), 1e-300))
    return out


def ref_psd(x_windows, dt, width, nfft):
    """One-sided PSD (Welch, no overlap) of equal-length windows, as documented."""
    x_windows = [np.asarray(x, dtype=float) for x in x_windows]
    n = len(x_windows[0])
    w = taper(n, width)
    U = np.mean(w ** 2)
    acc = np.zeros(nfft // 2 + 1)
    for x in x_windows:
        X = np.fft.rfft(x * w, nfft)
        acc += np.abs(X) ** 2
    fs = 1.0 / dt
    return 2.0 * acc / (U * n * fs * len(x_windows))


def ref_diffuse_field(ns_w, ew_w, vt_w, dt, op, bw, fcs, width, nfft):
    f = np.fft.rfftfreq(nfft, dt)
    pns, pew, pvt = (ref_psd(c, dt, width, nfft) for c in (ns_w, ew_w, vt_w))
    sh, amb1 = ref_smooth(op, f, pns + pew, fcs, bw)
    sv, amb2 = ref_smooth(op, f, pvt, fcs, bw)
    with np.errstate(all="ignore"):
        return np.sqrt(sh[0] / sv[0]), amb1 | amb2


def nextpow2(n, minimum=2 ** 15):
    p = minimum
    while p <= n:
        p *= 2
    return p


# ---------------------------------------------------------------------------
# peaks
# ---------------------------------------------------------------------------

def local_max_runs(a):
    """Maximal runs [i, j] of equal values strictly above both neighbours
    (both neighbours must exist).  Representative = (i + j) // 2."""
    a = np.asarray(a, dtype=float)
    n = len(a)
    runs = []
    i = 1
    while i < n - 1:
        if a[i - 1] < a[i]:
            j = i
            while j < n - 1 and a[j + 1] == a[i]:
                j += 1
            if j < n - 1 and a[j + 1] < a[i]:
                runs.append((i, j, (i + j) // 2))
            i = j + 1
        else:
            i += 1
    return runs


def ref_peak_slice(f, a, lo, hi):
    """Highest local maximum of a[lo:hi] (scipy rule, first among equals).
    Returns index into the full array or None."""
    sub = np.asarray(a[lo:hi], dtype=float)
    runs = local_max_runs(sub)
    if not runs:
        return None
    best = None
    for (_i, _j, q) in runs:
        if best is None or sub[q] > sub[best]:
            best = q
    return lo + best


def nearest_index(f, x):
    """All indices whose distance to x is within a knife-edge of the minimum."""
    f = np.asarray(f, dtype=float)
    # a limit beyond the grid is nearest to the end sample, however far away it is (inf, 1e300: the float
    # difference f - x would absorb f and make every sample look equally near)
    x = min(max(float(x), float(f.min())), float(f.max()))
    d = np.abs(f - x)
    m = d.min()
    tol = 1e-9 * max(abs(x), np.max(np.abs(f)), 1e-300)
    return [int(i) for i in np.flatnonzero(d <= m + tol)]


# ---------------------------------------------------------------------------
# statistics
# ---------------------------------------------------------------------------

def mean_dist(x, distribution, axis=None):
    x = np.asarray(x, dtype=float)
    if distribution == "normal":
        return np.mean(x, axis=axis)
    return np.exp(np.mean(np.log(x), axis=axis))


def std_dist(x, distribution, axis=None):
    x = np.asarray(x, dtype=float)
    if distribution == "normal":
        return np.std(x, axis=axis, ddof=1)
    return np.std(np.log(x), axis=axis, ddof=1)


def nth_dist(mean, std, n, distribution):
    if distribution == "normal":
        return mean + n * std
    return np.exp(np.log(mean) + n * std)


def wmean_dist(x, w, distribution):
    x = np.asarray(x, dtype=float)
    w = np.asarray(w, dtype=float)
    if distribution == "normal":
        return np.sum(w * x, axis=0) / np.sum(w)
    return np.exp(np.sum(w * np.log(x).T, axis=-1) / np.sum(w)) if x.ndim > 1 else math.exp(np.sum(w * np.log(x)) / np.sum(w))


def wstd_cheng(x, w, distribution):
    """sqrt(sum w (x-m)^2 / (1 - sum w^2)), weights summing to one."""
    x = np.asarray(x, dtype=float)
    w = np.asarray(w, dtype=float)
    y = x if distribution == "normal" else np.log(x)
    m = np.sum(w * y) / np.sum(w)
    return math.sqrt(np.sum(w * (y - m) ** 2) / (1.0 - np.sum(w ** 2)))
