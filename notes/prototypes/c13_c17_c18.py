import warnings, numpy as np, hvsrpy
from fractions import Fraction
from hvsrpy import TimeSeries, SeismicRecording3C
from hvsrpy.instrument_response import InstrumentTransferFunction
warnings.simplefilter("ignore")
r=np.random.default_rng(0)
# ---- C13 clearly in/out
def ratios(x,dt,sta,lta,dn):
    ns=int(Fraction(sta)/Fraction(dt))+dn if False else int(round(sta/dt))+dn
    nl=int(round(lta/dt))+dn
    if ns<1 or ns>len(x) or nl<1 or nl>len(x): return None
    k=len(x)//ns; s=np.abs(x[:ns*k]).reshape(k,ns).mean(axis=1); l=np.abs(x[:ns*k][:nl]).mean()
    return s/l
stat={'keep-ok':0,'rej-ok':0,'undecided':0,'bad':0}
for t in range(3000):
    dt=float(r.choice([0.01,0.005,1/75,0.004,0.02])); n=int(r.integers(400,3000))
    sta=float(r.choice([0.5,1.0,2.0]))*(1 if r.random()<.5 else r.uniform(.5,1.5)); lta=min(sta*float(r.uniform(2,20)),(n-5)*dt)
    if sta>lta: continue
    x=r.normal(size=n)
    if r.random()<0.5:
        s0=int(r.integers(0,n-10)); L=int(r.integers(2*sta/dt, 6*sta/dt)); x[s0:s0+L]*=10**r.uniform(-1.5,1.5)
    lo=float(r.uniform(0.05,0.6)); hi=float(r.uniform(1.5,6))
    rec=SeismicRecording3C(TimeSeries(x,dt),TimeSeries(x,dt),TimeSeries(x,dt))
    try: kept=len(hvsrpy.sta_lta_window_rejection([rec],sta,lta,lo,hi,components=("ns",)))==1
    except IndexError: continue
    vs=[ratios(x,dt,sta,lta,dn) for dn in (-1,0,1)]
    vs=[v for v in vs if v is not None]
    allin=all(v.min()>lo*(1+1e-6) and v.max()<hi*(1-1e-6) for v in vs)
    allout=all(v.min()<lo*(1-1e-6) or v.max()>hi*(1+1e-6) for v in vs)
    if allin: stat['keep-ok' if kept else 'bad']+=1
    elif allout: stat['rej-ok' if not kept else 'bad']+=1
    else: stat['undecided']+=1
print('C13',stat)
# ---- C17 flat response / derivative
n=400; dt=0.01
x=r.normal(size=n)+3
def fresh(): return SeismicRecording3C(TimeSeries(x,dt),TimeSeries(2*x,dt),TimeSeries(-x,dt))
from scipy.signal.windows import tukey
itf=InstrumentTransferFunction(poles=[],zeros=[],instrument_sensitivity=250.,normalization_factor=2.)
ps=hvsrpy.PsdPreProcessingSettings(window_length_in_seconds=None,detrend="none",instrument_transfer_function=itf,orient_to_degrees_from_north=None,window_type_and_width=["tukey",0.3])
out=hvsrpy.preprocess([fresh()],ps)[0]
N=ps.fft_settings['n']; xw=(x-x.mean())*tukey(n,0.3); exp=(xw-xw.sum()/N)/(250.*2.)
print('flat resp maxdiff',np.max(np.abs(out.ns.amplitude-exp)), 'N',N)
ps=hvsrpy.PsdPreProcessingSettings(window_length_in_seconds=None,detrend="none",differentiate=True,orient_to_degrees_from_north=None,window_type_and_width=["tukey",1.0])
tt=np.arange(n)*dt; f0=5.0; y=np.sin(2*np.pi*f0*tt)
rec=SeismicRecording3C(TimeSeries(y,dt),TimeSeries(y,dt),TimeSeries(y,dt)); out=hvsrpy.preprocess([rec],ps)[0]
w=tukey(n,1.0); yw=(y-y.mean())*w
spec=np.fft.irfft(2j*np.pi*np.fft.rfftfreq(ps.fft_settings['n'],dt)*np.fft.rfft(yw,ps.fft_settings['n']),ps.fft_settings['n'])[:n]
# analytic derivative of hann*sin
T=(n-1)*dt; wa=0.5*(1-np.cos(2*np.pi*tt/T)); dwa=0.5*(2*np.pi/T)*np.sin(2*np.pi*tt/T)
ana=dwa*(y-y.mean())+wa*2*np.pi*f0*np.cos(2*np.pi*f0*tt)
print('deriv vs spectral def',np.max(np.abs(out.ns.amplitude-spec)),'vs analytic rel',np.max(np.abs(out.ns.amplitude-ana))/np.max(np.abs(ana)))
# ---- C18 trim
bad=0
for t in range(2000):
    dt=float(r.choice([0.01,1/75,0.004,0.02,1/128])); n=int(r.integers(10,500)); ts=TimeSeries(np.arange(n,dtype=float),dt)
    i=int(r.integers(0,n-1)); j=int(r.integers(i+1,n)); a=(i+r.uniform(-0.45,0.45))*dt; b=(j+r.uniform(-0.45,0.45))*dt
    a=max(a,0.0); b=min(b,(n-1)*dt)
    if a>=b: continue
    ts.trim(a,b)
    if not (ts.amplitude[0]==i and ts.amplitude[-1]==j and ts.n_samples==j-i+1): bad+=1
print('C18 trim bad',bad)
