import time, warnings
import numpy as np
import hvsrpy
from shapely.geometry import MultiPoint, Polygon, Point
warnings.simplefilter("ignore")

def clip_halfplane(poly, a, b):
    """keep points x with a.x <= b ; poly: list of (x,y) convex CCW"""
    out=[]
    n=len(poly)
    for i in range(n):
        p=poly[i]; q=poly[(i+1)%n]
        dp=a[0]*p[0]+a[1]*p[1]-b; dq=a[0]*q[0]+a[1]*q[1]-b
        if dp<=0: out.append(p)
        if (dp<0 and dq>0) or (dp>0 and dq<0):
            t=dp/(dp-dq); out.append((p[0]+t*(q[0]-p[0]), p[1]+t*(q[1]-p[1])))
    return out
def area(poly):
    if len(poly)<3: return 0.0
    x=np.array([p[0] for p in poly]); y=np.array([p[1] for p in poly])
    return 0.5*abs(np.dot(x,np.roll(y,-1))-np.dot(y,np.roll(x,-1)))
def oracle(coords, boundary):
    hull=MultiPoint([tuple(b) for b in boundary]).convex_hull
    hp=list(hull.exterior.coords)[:-1]
    inside=[i for i,c in enumerate(coords) if hull.contains(Point(*c))]
    pts=[coords[i] for i in inside]
    tot=area(hp); ws=[]
    for i,p in enumerate(pts):
        poly=list(hp)
        for j,q in enumerate(pts):
            if i==j: continue
            # |x-p|^2 <= |x-q|^2  -> 2(q-p).x <= |q|^2-|p|^2 ; use centered coords for conditioning
            a=(2*(q[0]-p[0]),2*(q[1]-p[1])); m=((p[0]+q[0])/2,(p[1]+q[1])/2)
            b=a[0]*m[0]+a[1]*m[1]
            poly=clip_halfplane(poly,a,b)
        ws.append(area(poly)/tot)
    return np.array(ws), inside
r=np.random.default_rng(5)
worst=0; t=time.time(); nbad=0
for trial in range(300):
    n=r.integers(4,12)
    E=10**r.uniform(0,3); off=r.uniform(-1,1,size=2)*E*10**r.uniform(0,4)
    coords=r.uniform(-E,E,size=(n,2))+off
    nb=r.integers(3,8)
    boundary=r.uniform(-1.3*E,1.3*E,size=(nb,2))+off
    ow,oi=oracle(coords,boundary)
    if len(oi)<4: continue
    try:
        w,i=hvsrpy.HvsrSpatial(coords).spatial_weights(boundary)
    except Exception as e:
        print('exc',type(e),e); nbad+=1; continue
    assert list(i)==list(oi)
    d=np.max(np.abs(w-ow)); worst=max(worst,d)
    if d>1e-6: print('diff',d,n,E,off, abs(sum(w)-1)); nbad+=1
print('worst',worst,'bad',nbad,'time',time.time()-t)
