import warnings, numpy as np, hvsrpy, tempfile, os
warnings.simplefilter("ignore")
r=np.random.default_rng(0); f=np.geomspace(0.2,20,60)
def curves(nw):
    fns=np.exp(r.normal(np.log(2),0.3,size=nw))
    return np.array([1+r.uniform(1,5)*np.exp(-0.5*(np.log(f/x)/0.2)**2)+0.05*np.abs(r.normal(size=len(f))) for x in fns])
worst=0
for t in range(300):
    A=int(r.integers(1,5)); hv=[]; masks=[]
    for a in range(A):
        nw=int(r.integers(2,8)); h=hvsrpy.HvsrTraditional(f,curves(nw)); hv.append(h)
    ha=hvsrpy.HvsrAzimuthal(hv,np.linspace(0,170,A))
    for h in ha.hvsrs:
        m=r.random(h.n_curves)<0.7
        if m.sum()<2: m[:2]=True
        h.valid_window_boolean_mask=m.copy(); h.valid_peak_boolean_mask=m.copy()
    for dist in ['normal','lognormal']:
        tf=(lambda x:np.log(x)) if dist=='lognormal' else (lambda x:x); inv=(np.exp if dist=='lognormal' else (lambda x:x))
        xs=[]; ys=[]; ws=[]; cs=[]
        for h in ha.hvsrs:
            m=h.valid_peak_boolean_mask; n=m.sum(); xs+=list(tf(h._main_peak_frq[m])); ys+=list(tf(h._main_peak_amp[m])); ws+=[1/(A*n)]*n; cs.append(tf(h.amplitude[m]))
        xs,ys,ws=map(np.array,(xs,ys,ws)); C=np.vstack(cs)
        mx=np.sum(ws*xs); sx=np.sqrt(np.sum(ws*(xs-mx)**2)/(1-np.sum(ws**2)))
        my=np.sum(ws*ys); sy=np.sqrt(np.sum(ws*(ys-my)**2)/(1-np.sum(ws**2)))
        cxy=np.sum(ws*(xs-mx)*(ys-my))/(1-np.sum(ws**2))
        mc=ws@C; sc=np.sqrt((ws@((C-mc)**2))/(1-np.sum(ws**2)))
        d=[abs(ha.mean_fn_frequency(dist)/inv(mx)-1),abs(ha.std_fn_frequency(dist)/sx-1),abs(ha.mean_fn_amplitude(dist)/inv(my)-1),abs(ha.std_fn_amplitude(dist)/sy-1),
           np.max(np.abs(ha.cov_fn(dist)-np.array([[sx**2,cxy],[cxy,sy**2]]))/ (sx*sy)), np.max(np.abs(ha.mean_curve(dist)/inv(mc)-1)), np.max(np.abs(ha.std_curve(dist)/sc-1)),
           abs(ha.nth_std_fn_frequency(1.5,dist)/(inv(mx+1.5*sx))-1)]
        worst=max(worst,max(d))
        # mean = average over azimuth of per-azimuth means
        pam=np.mean([np.mean(tf(h._main_peak_frq[h.valid_peak_boolean_mask])) for h in ha.hvsrs]); worst=max(worst,abs(mx-pam))
        if A==1:
            h=ha.hvsrs[0]; d2=[abs(ha.mean_fn_frequency(dist)/h.mean_fn_frequency(dist)-1),abs(ha.std_fn_frequency(dist)/h.std_fn_frequency(dist)-1),np.max(np.abs(ha.cov_fn(dist)-h.cov_fn(dist))),np.max(np.abs(ha.std_curve(dist)/h.std_curve(dist)-1))]; worst=max(worst,max(d2))
print('C11 worst rel',worst)
# C05 traditional vs numpy
worst=0
for t in range(300):
    h=hvsrpy.HvsrTraditional(f,curves(int(r.integers(3,12)))); m=r.random(h.n_curves)<0.7; m[:2]=True
    h.valid_window_boolean_mask=m.copy(); h.valid_peak_boolean_mask=m.copy()
    x=h._main_peak_frq[m]; y=h._main_peak_amp[m]
    d=[abs(h.mean_fn_frequency('lognormal')/np.exp(np.mean(np.log(x)))-1),abs(h.std_fn_frequency('lognormal')/np.std(np.log(x),ddof=1)-1),abs(h.mean_fn_frequency('normal')/np.mean(x)-1),abs(h.std_fn_amplitude('normal')/np.std(y,ddof=1)-1),
       np.max(np.abs(h.cov_fn('lognormal')-np.cov(np.log(x),np.log(y)))),np.max(np.abs(h.mean_curve('lognormal')/np.exp(np.mean(np.log(h.amplitude[m]),axis=0))-1)),np.max(np.abs(h.std_curve('normal')/np.std(h.amplitude[m],axis=0,ddof=1)-1)),
       abs(1/h.mean_fn_frequency('lognormal')/np.exp(np.mean(np.log(1/x)))-1), abs(h.nth_std_fn_frequency(2,'lognormal')*h.nth_std_fn_frequency(-2,'lognormal')/h.mean_fn_frequency('lognormal')**2-1)]
    worst=max(worst,max(d))
    h2=hvsrpy.HvsrTraditional(f,h.amplitude[m]); worst=max(worst,np.max(np.abs(h2.mean_curve()/h.mean_curve()-1)),abs(h2.std_fn_frequency()/h.std_fn_frequency()-1))
print('C05 worst rel',worst)
# C12 round trip traditional
d=tempfile.mkdtemp(); bad=0
for t in range(100):
    h=hvsrpy.HvsrTraditional(f,curves(int(r.integers(3,9))),meta={'processing_method':'traditional'})
    h.update_peaks_bounded((float(r.uniform(0.3,1)),float(r.uniform(5,15))))
    hvsrpy.frequency_domain_window_rejection(h,n=2,max_iterations=50,search_range_in_hz=h.meta['search_range_in_hz'])
    if h.valid_window_boolean_mask.sum()<2: continue
    fn=os.path.join(d,'t.csv'); hvsrpy.write_hvsr_object_to_file(h,fn,'normal','lognormal'); g=hvsrpy.read_hvsr_object_from_file(fn)
    ok=np.array_equal(h.amplitude,g.amplitude) and np.array_equal(h.frequency,g.frequency) and np.array_equal(h.valid_window_boolean_mask,g.valid_window_boolean_mask) and np.array_equal(h.valid_peak_boolean_mask,g.valid_peak_boolean_mask) and tuple(h._search_range_in_hz)==tuple(g._search_range_in_hz) and np.array_equal(h._main_peak_frq,g._main_peak_frq,equal_nan=True) and h.mean_fn_frequency()==g.mean_fn_frequency() and np.array_equal(h.std_curve(),g.std_curve())
    arr=np.loadtxt(fn,comments='#',delimiter=','); ok&=np.array_equal(arr[:,-2],h.mean_curve('normal')) and np.array_equal(arr[:,-1],h.std_curve('normal'))
    bad+= (not ok)
print('C12 traditional roundtrip bad',bad)
import shutil; shutil.rmtree(d)
