import warnings, numpy as np, hvsrpy, tempfile, os, copy, pickle
import matplotlib; matplotlib.use("Agg"); import matplotlib.pyplot as plt
from hvsrpy import TimeSeries, SeismicRecording3C
warnings.simplefilter("ignore")
r=np.random.default_rng(0)
def rec(n=300,dt=0.01,seed=0):
    rr=np.random.default_rng(seed); return SeismicRecording3C(*(TimeSeries(rr.normal(size=n),dt) for _ in range(3)))
fcs=np.geomspace(0.5,20,20)
# (1) meta aliasing
s=hvsrpy.HvsrTraditionalSingleAzimuthProcessingSettings(smoothing=dict(operator='konno_and_ohmachi',bandwidth=40,center_frequencies_in_hz=list(fcs)),window_type_and_width=["tukey",0.1])
h=hvsrpy.process([rec()],s); before=copy.deepcopy(h.meta)
s.window_type_and_width[1]=0.5; s.smoothing['center_frequencies_in_hz'][0]=9.9
print('C09 meta aliasing: window', h.meta['window_type_and_width'], 'fcs[0]', h.meta['smoothing']['center_frequencies_in_hz'][0], 'changed', h.meta!=before)
# (3) reloaded settings
d=tempfile.mkdtemp(); ok=True
for cls,kw in [(hvsrpy.HvsrTraditionalProcessingSettings,dict(method_to_combine_horizontals='squared_average')),(hvsrpy.HvsrTraditionalRotDppProcessingSettings,dict(azimuths_in_degrees=(0,45,90),ppth_percentile_for_rotdpp_computation=30.)),(hvsrpy.HvsrAzimuthalProcessingSettings,dict(azimuths_in_degrees=np.array([0.,60.]))),(hvsrpy.HvsrDiffuseFieldProcessingSettings,{}),(hvsrpy.HvsrTraditionalSingleAzimuthProcessingSettings,dict(azimuth_in_degrees=12.5))]:
    s=cls(smoothing=dict(operator='parzen',bandwidth=0.7,center_frequencies_in_hz=fcs),window_type_and_width=("tukey",0.2),**kw)
    fn=os.path.join(d,'s.json'); s.save(fn); s2=hvsrpy.read_settings_object_from_file(fn)
    same_cls=type(s2) is type(s)
    a=hvsrpy.process([rec(seed=1),rec(seed=2)],s); b=hvsrpy.process([rec(seed=1),rec(seed=2)],s2)
    A=np.array(a.amplitude); B=np.array(b.amplitude)
    print(cls.__name__, same_cls, np.array_equal(A,B))
# (4) montecarlo oracle
for dg in ['lognormal','normal']:
    for dsp in ['lognormal','normal']:
        M=5; means=r.uniform(0.5,2,size=M) if dg=='normal' else r.normal(0,0.5,size=M); sds=np.abs(means)*0.03 if dg=='normal' else r.uniform(0.05,0.3,size=M); w=r.uniform(0.1,2,size=M)
        m,sd,x=hvsrpy.montecarlo_fn(means,sds,w,dg,dsp,n_realizations=200,rng=np.random.default_rng(5))
        X=np.log(x) if dsp=='lognormal' else x; om=np.repeat(w/w.sum()/X.shape[1],X.shape[1]).reshape(X.shape)
        mm=np.sum(om*X); ss=np.sqrt(np.sum(om*(X-mm)**2)/(1-np.sum(om**2))); mm=np.exp(mm) if dsp=='lognormal' else mm
        m2,sd2,x2=hvsrpy.montecarlo_fn(means,sds,3*w,dg,dsp,n_realizations=200,rng=np.random.default_rng(5))
        m0,_,x0=hvsrpy.montecarlo_fn(means,np.zeros(M),w,dg,dsp,n_realizations=7,rng=np.random.default_rng(5))
        nat=np.exp(means) if dg=='lognormal' else means
        cf=np.exp(np.sum(w/w.sum()*np.log(nat))) if dsp=='lognormal' else np.sum(w/w.sum()*nat)
        print(dg,dsp,'mean',abs(m/mm-1),'std',abs(sd/ss-1),'scale-inv',m==m2 or abs(m/m2-1), 'zero-sd',abs(m0/cf-1), np.allclose(x0,nat[:,None]))
# (6) azimuthal/diffuse roundtrip
f=np.geomspace(0.2,20,50)
def curves(nw):
    fns=np.exp(r.normal(np.log(2),0.3,size=nw)); return np.array([1+3*np.exp(-0.5*(np.log(f/x)/0.2)**2) for x in fns])
ha=hvsrpy.HvsrAzimuthal([hvsrpy.HvsrTraditional(f,curves(n)) for n in (3,5,4)],[0.0,22.5,137.25],meta={'processing_method':'azimuthal'})
ha.update_peaks_bounded((0.5,10.)); ha.hvsrs[1].valid_window_boolean_mask[2]=False; ha.hvsrs[1].valid_peak_boolean_mask[2]=False
fn=os.path.join(d,'a.csv'); hvsrpy.write_hvsr_object_to_file(ha,fn); hb=hvsrpy.read_hvsr_object_from_file(fn)
print('az rt', hb.azimuths, [h.n_curves for h in hb.hvsrs], all(np.array_equal(a,b) for a,b in zip(ha.amplitude,hb.amplitude)), [h.valid_window_boolean_mask.tolist() for h in hb.hvsrs][1], ha.mean_fn_frequency()==hb.mean_fn_frequency(), np.array_equal(ha.std_curve(),hb.std_curve()))
hd=hvsrpy.HvsrDiffuseField(f,curves(1)[0],meta={'processing_method':'diffuse_field'}); hd.update_peaks_bounded((0.5,None))
fn=os.path.join(d,'d.csv'); hvsrpy.write_hvsr_object_to_file(hd,fn); he=hvsrpy.read_hvsr_object_from_file(fn); print('diffuse rt', np.array_equal(hd.amplitude,he.amplitude), he._search_range_in_hz, he.peak_frequency==hd.peak_frequency)
# (2) C20 snapshots
h=hvsrpy.HvsrTraditional(f,curves(8)); h.valid_window_boolean_mask[[1,4]]=False; h.valid_peak_boolean_mask[[1,4]]=False
snap=lambda h:(h.amplitude.tobytes(),h.valid_window_boolean_mask.tobytes(),h.valid_peak_boolean_mask.tobytes(),h._main_peak_frq.tobytes(),h._search_range_in_hz,repr(h.meta))
s0=snap(h); recs=[rec(100,seed=i) for i in range(8)]; rs0=[x.ns.amplitude.tobytes() for x in recs]
hvsrpy.plot_single_panel_hvsr_curves(h); hvsrpy.plot_pre_and_post_rejection(recs,h); hvsrpy.plot_seismic_recordings_3c(recs)
import hvsrpy.postprocessing as pp; pp.display=lambda s:None; hvsrpy.summarize_hvsr_statistics(h); plt.close('all')
print('C20 unchanged', snap(h)==s0, rs0==[x.ns.amplitude.tobytes() for x in recs])
import shutil; shutil.rmtree(d)
