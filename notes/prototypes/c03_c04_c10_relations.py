import warnings, numpy as np, hvsrpy, itertools
from hvsrpy import TimeSeries, SeismicRecording3C
from scipy.signal import butter, sosfiltfilt, detrend
warnings.simplefilter("ignore")
def rec(n,dt,seed,d=0.):
    r=np.random.default_rng(seed); return SeismicRecording3C(*(TimeSeries(r.normal(size=n),dt) for _ in range(3)),degrees_from_north=d)
cp=SeismicRecording3C.from_seismic_recording_3c
fcs=np.geomspace(0.5,20,20)
sm=dict(operator='konno_and_ohmachi',bandwidth=40,center_frequencies_in_hz=fcs)
# C03 bit equality
recs=[rec(300,0.01,1),rec(250,0.02,2),rec(280,0.02,3),rec(310,0.01,4),rec(100,0.005,5)]
def mk(kind,policy='frequency_domain_resampling'):
    kw=dict(smoothing=dict(sm),fft_settings={'n':32768},handle_dissimilar_time_steps_by=policy)
    if kind=='az': return hvsrpy.HvsrAzimuthalProcessingSettings(azimuths_in_degrees=[0.,40.,100.],**kw)
    if kind=='rot': return hvsrpy.HvsrTraditionalRotDppProcessingSettings(azimuths_in_degrees=[0.,40.,100.],ppth_percentile_for_rotdpp_computation=60.,**kw)
    if kind=='sa': return hvsrpy.HvsrTraditionalSingleAzimuthProcessingSettings(azimuth_in_degrees=33.,**kw)
    return hvsrpy.HvsrTraditionalProcessingSettings(method_to_combine_horizontals=kind,**kw)
for kind in ['geometric_mean','maximum_horizontal_value','sa','rot','az']:
    joint=hvsrpy.process([cp(r) for r in recs],mk(kind))
    ok=True
    for i,r in enumerate(recs):
        alone=hvsrpy.process([cp(r)],mk(kind))
        if kind=='az':
            ok&=all(np.array_equal(j[i],a[0]) for j,a in zip(joint.amplitude,alone.amplitude))
        else: ok&=np.array_equal(joint.amplitude[i],alone.amplitude[0])
    print('C03 joint==alone bitwise',kind,ok)
for pol in ['keeping_smallest_time_step','keeping_majority_time_step']:
    j=hvsrpy.process([cp(r) for r in recs],mk('geometric_mean',pol)); print(pol, j.amplitude.shape)
# nyquist
try:
    s=mk('geometric_mean'); s.smoothing['center_frequencies_in_hz']=np.geomspace(0.5,40,10); hvsrpy.process([cp(r) for r in recs],s); print('no raise')
except ValueError as e: print('nyq raise ok')
s=mk('geometric_mean','keeping_smallest_time_step'); s.smoothing['center_frequencies_in_hz']=np.geomspace(0.5,90,10); print('smallest keeps ok', hvsrpy.process([cp(r) for r in recs],s).amplitude.shape)
# C04
r0=rec(300,0.01,7,d=25.)
a=r0.ns.amplitude.copy(); b=r0.ew.amplitude.copy()
r1=cp(r0); r1.orient_sensor_to(400.); dl=np.radians(400-25)
print('C04 rot', np.max(np.abs(r1.ns.amplitude-(a*np.cos(dl)+b*np.sin(dl)))), np.max(np.abs(r1.ew.amplitude-(-a*np.sin(dl)+b*np.cos(dl)))), r1.degrees_from_north)
r1.orient_sensor_to(25.); print('back', np.max(np.abs(r1.ns.amplitude-a)))
rn=cp(r0); rn.orient_sensor_to(0.)
for az in [33., 147.5]:
    s=mk('sa'); s.azimuth_in_degrees=az; h1=hvsrpy.process([cp(rn)],s)
    ra=cp(rn); ra.orient_sensor_to(az); s=mk('sa'); s.azimuth_in_degrees=0.; h2=hvsrpy.process([ra],s)
    s=mk('sa'); s.azimuth_in_degrees=az+180; h3=hvsrpy.process([cp(rn)],s)
    print('single az vs oriented', np.max(np.abs(h1.amplitude/h2.amplitude-1)), '180', np.max(np.abs(h1.amplitude/h3.amplitude-1)))
for m in ['squared_average','vector_summation']:
    h1=hvsrpy.process([cp(r0)],mk(m)); r2=cp(r0); r2.orient_sensor_to(77.); h2=hvsrpy.process([r2],mk(m)); print('inv',m,np.max(np.abs(h1.amplitude/h2.amplitude-1)))
sd=hvsrpy.HvsrDiffuseFieldProcessingSettings(smoothing=dict(sm)); h1=hvsrpy.process([cp(r0)],sd); r2=cp(r0); r2.orient_sensor_to(77.); sd=hvsrpy.HvsrDiffuseFieldProcessingSettings(smoothing=dict(sm)); h2=hvsrpy.process([r2],sd); print('inv diffuse',np.max(np.abs(h1.amplitude/h2.amplitude-1)))
# C10 order oracle
r=rec(1501,1/100,9,d=10.)
pre=hvsrpy.HvsrPreProcessingSettings(orient_to_degrees_from_north=50.,filter_corner_frequencies_in_hz=[1.,20.],window_length_in_seconds=3.0,detrend='linear')
w=hvsrpy.preprocess([cp(r)],pre)
dl=np.radians(40.); ns=r.ns.amplitude*np.cos(dl)+r.ew.amplitude*np.sin(dl)
sos=butter(5,[1.,20.],'bandpass',fs=100,output='sos'); nsf=sosfiltfilt(sos,ns)
k=300; ref=[detrend(nsf[j*k:j*k+k+1]) for j in range(len(nsf)//k)]
print('C10 nwin',len(w),len(ref),'maxdiff',max(np.max(np.abs(a.ns.amplitude-b)) for a,b in zip(w,ref)))
alt=[sosfiltfilt(sos,detrend(ns[j*k:j*k+k+1])) for j in range(len(ns)//k)]
print('alt order differs by', max(np.max(np.abs(a.ns.amplitude-b)) for a,b in zip(w,alt)))
