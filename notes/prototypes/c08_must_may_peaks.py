import warnings, numpy as np, hvsrpy, io, contextlib
warnings.simplefilter("ignore")
def runs(a):
    a=np.asarray(a,float); n=len(a); out=[]; i=1
    while i<n-1:
        if a[i]>a[i-1]:
            j=i
            while j<n-1 and a[j+1]==a[i]: j+=1
            if j<n-1 and a[j+1]<a[i]: out.append((i,j))
            i=j+1
        else: i+=1
    return out
def local_maxima(a): return [(i+j)//2 for i,j in runs(a)]
def nearest(f,x):
    return int(np.argmin(np.abs(f-x)))
def c08_check(f,a,rng,pf,pa):
    R=runs(a); lo_b,hi_b=rng
    lo=-1 if lo_b is None else nearest(f,lo_b); hi=len(f) if hi_b is None else nearest(f,hi_b)
    flo=-np.inf if lo_b is None else lo_b; fhi=np.inf if hi_b is None else hi_b
    inHz=lambda q: flo<f[q]<fhi
    # None low: code slice starts at 0 -> candidates from 1 ; lo=-1 -> lo+1=0 fine (0 never local max)
    lo_edge = 0 if lo_b is None else lo          # first sample of narrowest slice
    hi_edge = len(f)-1 if hi_b is None else hi-1  # last sample of narrowest slice
    MUST=[(i+j)//2 for i,j in R if i-1>=lo_edge and j+1<=hi_edge and inHz((i+j)//2)]
    MAY=[(i+j)//2 for i,j in R if inHz((i+j)//2)]
    if np.isnan(pf):
        return 'viol: NaN but MUST nonempty' if MUST else None
    p=np.where(f==pf)[0]
    if len(p)!=1: return 'viol: not grid'
    p=int(p[0])
    if p not in MAY: return f'viol: reported {p} not in MAY'
    if a[p]!=pa: return 'viol: amp mismatch'
    if MUST and pa<max(a[q] for q in MUST): return 'viol: higher in MUST'
    return None
r=np.random.default_rng(0); nv=0; nb=0; ncase=0; beyond=0
for t in range(20000):
    n=int(r.integers(4,40))
    f=np.sort(r.uniform(0.1,20,size=n)) if r.random()<0.3 else np.geomspace(0.2,20,n)
    if len(np.unique(f))<n: continue
    kind=r.integers(0,4)
    a=r.integers(1,5,size=n).astype(float) if kind==0 else (np.abs(r.normal(size=n))+0.1 if kind==1 else (np.linspace(1,3,n) if kind==2 else 1+np.exp(-0.5*((np.log(f)-np.log(r.uniform(0.3,15)))/0.3)**2)*r.uniform(1,5)+0.05*r.normal(size=n)))
    a=np.abs(a)
    def bound():
        u=r.random()
        if u<0.2: return None
        if u<0.5: return float(f[r.integers(0,n)])
        if u<0.6: return float(r.choice([0.01,50.]))
        return float(r.uniform(0.05,25))
    rng=(bound(),bound())
    h=hvsrpy.HvsrCurve(f,a); h.update_peaks_bounded(rng)
    res=c08_check(f,a,rng,h.peak_frequency,h.peak_amplitude); ncase+=1
    if res: nv+=1; print(res, f.tolist(), a.tolist(), rng, h.peak_frequency); 
    if nv>3: break
    # beyond-grid clause
    if rng[1] is not None and rng[1]>f[-1]:
        h2=hvsrpy.HvsrCurve(f,a); h2.update_peaks_bounded((rng[0],None))
        if not (h2.peak_frequency==h.peak_frequency or (np.isnan(h2.peak_frequency) and np.isnan(h.peak_frequency))): beyond+=1
print('cases',ncase,'violations',nv,'beyond-grid mismatches',beyond)
# compare local_maxima with scipy
from scipy.signal import find_peaks
bad=0
for t in range(5000):
    a=r.integers(0,4,size=int(r.integers(1,15))).astype(float)
    if list(find_peaks(a)[0])!=local_maxima(a): bad+=1
print('local_maxima vs scipy mismatches',bad)
