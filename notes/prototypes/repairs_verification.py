import warnings, numpy as np, hvsrpy, copy, tempfile, os
from hvsrpy import TimeSeries, SeismicRecording3C
warnings.simplefilter("ignore")
print(hvsrpy.__file__)
r=np.random.default_rng(1); f=np.geomspace(0.2,20,64)
def rec(n=500,dt=0.01,seed=0):
    rr=np.random.default_rng(seed); return SeismicRecording3C(*(TimeSeries(rr.normal(size=n),dt) for _ in range(3)))
fns=np.exp(r.normal(np.log(2),0.5,size=30)); amp=np.array([1+3*np.exp(-0.5*(np.log(f/x)/0.15)**2) for x in fns])
print('C06', hvsrpy.frequency_domain_window_rejection(hvsrpy.HvsrTraditional(f,amp),n=1,max_iterations=1))
f1='/repo/test/data/input/mseed_combined/ut.stn11.a2_c50.mseed'
print('C07', [o.degrees_from_north for o in hvsrpy.read([[f1],[f1]],degrees_from_north=[10.,20.])], [o.degrees_from_north for o in hvsrpy.read([[f1],[f1]],obspy_read_kwargs=[None,None],degrees_from_north=15.)], [o.degrees_from_north for o in hvsrpy.read([[f1],[f1]],obspy_read_kwargs=[None,None],degrees_from_north=[1.,2.])])
fcs=np.geomspace(0.5,40,30)
for cls in [hvsrpy.HvsrTraditionalProcessingSettings,hvsrpy.HvsrDiffuseFieldProcessingSettings,hvsrpy.PsdProcessingSettings]:
    s=cls(); s.smoothing['center_frequencies_in_hz']=fcs; x=rec(); b=x.ns.amplitude.copy(); m=dict(x.meta)
    h1=hvsrpy.process([x],s); h2=hvsrpy.process([x],s)
    same = np.array_equal(h1.amplitude,h2.amplitude) if not isinstance(h1,dict) else np.array_equal(h1['ns'].amplitude,h2['ns'].amplitude)
    print('C09',cls.__name__,'unchanged',np.array_equal(b,x.ns.amplitude) and m==x.meta,'repeatable',same)
for fs,wl in [(75,3.0),(150,3.0),(300,3.0),(100,0.3),(100,3.005),(128,1.0),(200,2.9999)]:
    ts=TimeSeries(np.arange(20*fs+1.),1/fs); print('C10',fs,wl,ts.split(wl)[0].n_samples-1, end=' | ')
print()
s=hvsrpy.HvsrAzimuthalProcessingSettings(); s.smoothing['center_frequencies_in_hz']=fcs; s.azimuths_in_degrees=[0.,30.,60.5]
ha=hvsrpy.process([rec(600,seed=i) for i in range(5)],s); d=tempfile.mkdtemp(); fn=os.path.join(d,'a.csv'); hvsrpy.write_hvsr_object_to_file(ha,fn); arr=np.loadtxt(fn,comments='#',delimiter=',')
print('C12', np.array_equal(arr[:,-2],ha.mean_curve()), np.array_equal(arr[:,-1],ha.std_curve()))
a=hvsrpy.HvsrTraditionalProcessingSettings(); a.window_type_and_width[1]=0.9; a.smoothing['center_frequencies_in_hz'][0]=0.123
b=hvsrpy.HvsrTraditionalProcessingSettings(); print('C15', b.window_type_and_width, b.smoothing['center_frequencies_in_hz'][0])
p=hvsrpy.HvsrPreProcessingSettings(); p.filter_corner_frequencies_in_hz[0]=3; print('C15', hvsrpy.HvsrPreProcessingSettings().filter_corner_frequencies_in_hz)
z=hvsrpy.HvsrAzimuthalProcessingSettings(); z.azimuths_in_degrees[0]=99; print('C15', hvsrpy.HvsrAzimuthalProcessingSettings().azimuths_in_degrees[0])
s=hvsrpy.HvsrTraditionalSingleAzimuthProcessingSettings(smoothing=dict(operator='konno_and_ohmachi',bandwidth=40,center_frequencies_in_hz=list(fcs)))
h=hvsrpy.process([rec()],s); before=copy.deepcopy(h.meta); s.window_type_and_width[1]=0.5; s.smoothing['center_frequencies_in_hz'][0]=9.9; print('C09 meta stable', h.meta==before)
h=hvsrpy.HvsrCurve([1,2,3,4,5,6],[1,3,1,1,6,1]); h.update_peaks_bounded((0.1,100)); print('C08',h.peak_frequency)
h=hvsrpy.HvsrCurve([1,2,3,4,5,6],[1,3,1,1,6,1]); h.update_peaks_bounded((0.9,4.1)); print('C08',h.peak_frequency)
amp=np.array([1+3*np.exp(-0.5*(np.log(f/x)/0.15)**2) for x in (1.,1.2,.9)]+[np.linspace(1,2,64)]); h=hvsrpy.HvsrTraditional(f,amp)
hvsrpy.sta_lta_window_rejection([rec(400,seed=i) for i in range(4)],0.5,3,0.1,5,hvsr=h); print('C05 cov', h.cov_fn())
