import time, warnings
import numpy as np
import hvsrpy
from hvsrpy import TimeSeries, SeismicRecording3C
from scipy.signal.windows import tukey
warnings.simplefilter("ignore")
exec(open('c02_ref_smoothing.py').read().split("r=np.random.default_rng(0)")[0])
r=np.random.default_rng(1)
def mkrec(n,dt,seed,scale=(1,1,1)):
    rr=np.random.default_rng(seed)
    return SeismicRecording3C(*(TimeSeries(rr.normal(size=n)*s,dt) for s in scale))
def ref_hvsr(rec, method, op, bw, fcs, width, N, az=None, azs=None, pp=None):
    w=tukey(rec.ns.n_samples,width)
    ns,ew,vt=rec.ns.amplitude,rec.ew.amplitude,rec.vt.amplitude
    f=np.fft.rfftfreq(N,rec.ns.dt_in_seconds)
    A=lambda x: np.abs(np.fft.rfft(x*w,N))
    V=A(vt)
    sm=lambda S: ref_smooth(op,f,np.atleast_2d(S),fcs,bw)
    if method in ('arithmetic_mean',): H=(A(ns)+A(ew))/2
    elif method in ('squared_average','quadratic_mean','root_mean_square','effective_amplitude_spectrum'): H=np.sqrt((A(ns)**2+A(ew)**2)/2)
    elif method=='geometric_mean': H=np.sqrt(A(ns)*A(ew))
    elif method in ('total_horizontal_energy','vector_summation'): H=np.sqrt(A(ns)**2+A(ew)**2)
    elif method=='maximum_horizontal_value': H=np.maximum(A(ns),A(ew))
    elif method=='single_azimuth': H=A(ns*np.cos(np.radians(az))+ew*np.sin(np.radians(az)))
    elif method=='rotdpp':
        Hs=np.array([A(ns*np.cos(np.radians(a))+ew*np.sin(np.radians(a))) for a in azs])
        return np.percentile(sm(Hs),pp,axis=0)/sm(V)[0]
    return sm(H)[0]/sm(V)[0]
fcs=np.geomspace(0.3,30,25)
worst=0
for method in ['arithmetic_mean','squared_average','quadratic_mean','root_mean_square','effective_amplitude_spectrum','geometric_mean','total_horizontal_energy','vector_summation','maximum_horizontal_value']:
    for op,bw in [('konno_and_ohmachi',40),('parzen',0.5),('savitzky_and_golay',9),('linear_rectangular',.5),('log_rectangular',.05),('linear_triangular',.5),('log_triangular',.05)]:
        s=hvsrpy.HvsrTraditionalProcessingSettings(method_to_combine_horizontals=method, window_type_and_width=['tukey',0.2], smoothing=dict(operator=op,bandwidth=bw,center_frequencies_in_hz=fcs))
        rec=mkrec(300,0.01,3,(1,2,.5)); rec2=SeismicRecording3C.from_seismic_recording_3c(rec)
        h=hvsrpy.process([rec],s)
        ref=ref_hvsr(rec2,method,op,bw,fcs,0.2,s.fft_settings['n'])
        d=np.max(np.abs(h.amplitude[0]-ref)/ref); worst=max(worst,d)
        if d>1e-9: print(method,op,d)
print('trad worst',worst)
s=hvsrpy.HvsrTraditionalSingleAzimuthProcessingSettings(azimuth_in_degrees=33., smoothing=dict(operator='konno_and_ohmachi',bandwidth=40,center_frequencies_in_hz=fcs))
rec=mkrec(300,0.01,4); h=hvsrpy.process([rec],s); print('single', np.max(np.abs(h.amplitude[0]/ref_hvsr(rec,'single_azimuth','konno_and_ohmachi',40,fcs,0.1,32768,az=33.)-1)))
s=hvsrpy.HvsrTraditionalRotDppProcessingSettings(ppth_percentile_for_rotdpp_computation=70., azimuths_in_degrees=[0,30,77,120], smoothing=dict(operator='konno_and_ohmachi',bandwidth=40,center_frequencies_in_hz=fcs))
h=hvsrpy.process([rec],s); print('rotdpp', np.max(np.abs(h.amplitude[0]/ref_hvsr(rec,'rotdpp','konno_and_ohmachi',40,fcs,0.1,32768,azs=[0,30,77,120],pp=70.)-1)))
# closed form
base=np.random.default_rng(9).normal(size=200); A_,B_,C_=2.0,-3.0,0.5
rec=SeismicRecording3C(TimeSeries(A_*base,0.01),TimeSeries(B_*base,0.01),TimeSeries(C_*base,0.01))
for method,val in [('arithmetic_mean',(2+3)/2/.5),('geometric_mean',np.sqrt(6)/.5),('squared_average',np.sqrt((4+9)/2)/.5),('vector_summation',np.sqrt(13)/.5),('maximum_horizontal_value',3/.5)]:
    s=hvsrpy.HvsrTraditionalProcessingSettings(method_to_combine_horizontals=method, smoothing=dict(operator='konno_and_ohmachi',bandwidth=40,center_frequencies_in_hz=fcs))
    h=hvsrpy.process([SeismicRecording3C.from_seismic_recording_3c(rec)],s); print(method, np.max(np.abs(h.amplitude[0]/val-1)))
s=hvsrpy.HvsrDiffuseFieldProcessingSettings(smoothing=dict(operator='konno_and_ohmachi',bandwidth=40,center_frequencies_in_hz=fcs))
h=hvsrpy.process([SeismicRecording3C.from_seismic_recording_3c(rec)],s); print('diffuse', np.max(np.abs(h.amplitude/(np.sqrt(13)/.5)-1)))
