import warnings, numpy as np, hvsrpy, logging
warnings.simplefilter("ignore")
logging.getLogger("hvsrpy").setLevel(logging.CRITICAL)
from scipy.signal import find_peaks
def peak(f,a,rng=(None,None)):
    lo=0 if rng[0] is None else int(np.argmin(np.abs(f-rng[0]))); hi=len(f) if rng[1] is None else int(np.argmin(np.abs(f-rng[1])))
    idx,_=find_peaks(a[lo:hi])
    if len(idx)==0: return np.nan,np.nan
    k=idx[np.argmax(a[lo:hi][idx])]; return f[lo:hi][k],a[lo:hi][k]
def ref_fdwr(f,amp,n,maxit,dfn,dmc,rng=(None,None)):
    pk=np.array([peak(f,a,rng)[0] for a in amp]); valid=~np.isnan(pk); margin=np.inf; masks=[valid.copy()]
    def stats(v):
        x=pk[v]; 
        if dfn=='lognormal': m=np.exp(np.mean(np.log(x))); s=np.std(np.log(x),ddof=1); lo,hi=np.exp(np.log(m)-n*s),np.exp(np.log(m)+n*s)
        else: m=np.mean(x); s=np.std(x,ddof=1); lo,hi=m-n*s,m+n*s
        mc=np.exp(np.mean(np.log(amp[v]),axis=0)) if dmc=='lognormal' else np.mean(amp[v],axis=0)
        return m,s,lo,hi,peak(f,mc,rng)[0]
    for it in range(1,maxit+1):
        if valid.sum()<2: return None
        m0,s0,lo,hi,mc0=stats(valid)
        if np.isnan(mc0): return None
        d0=abs(m0-mc0)
        for x in pk[valid]:
            margin=min(margin,abs(x-lo)/x,abs(x-hi)/x)
        new=valid&(pk>lo)&(pk<hi)
        if new.sum()<2: return None
        valid=new; masks.append(valid.copy())
        m1,s1,_,_,mc1=stats(valid)
        if np.isnan(mc1): return None
        d1=abs(m1-mc1)
        if d0==0 or s0==0 or s1==0: return valid,it,margin,masks
        if d0<1e-9*m0: margin=0
        dd=abs(d1-d0)/d0; sd=abs(s1-s0)
        margin=min(margin,abs(dd-0.01),abs(sd-0.01))
        if dd<0.01 and sd<0.01: return valid,it,margin,masks
    return valid,maxit,margin,masks
r=np.random.default_rng(3); f=np.geomspace(0.2,20,80)
cnt={'ok':0,'degenerate':0,'knife':0,'mismatch':0,'typeerror':0,'multi':0,'othererr':0}
for t in range(3000):
    nw=int(r.integers(4,30)); c=r.uniform(0.5,5)
    fns=np.exp(r.normal(np.log(c),r.uniform(0.02,0.6),size=nw))
    out=r.random(nw)<r.uniform(0,0.3); fns[out]*=np.exp(r.normal(0,1.0,size=out.sum()))
    fns=np.clip(fns,0.25,16)
    amp=np.array([1+r.uniform(1,5)*np.exp(-0.5*(np.log(f/x)/r.uniform(0.1,0.3))**2)+0.2*np.exp(-0.5*(np.log(f/r.uniform(0.3,15))/0.2)**2) for x in fns])
    n=float(r.choice([0.5,1,1.5,2,2.5,3])); maxit=int(r.choice([1,2,3,50])); dfn=str(r.choice(['lognormal','normal'])); dmc=str(r.choice(['lognormal','normal']))
    ref=ref_fdwr(f,amp,n,maxit,dfn,dmc)
    h=hvsrpy.HvsrTraditional(f,amp)
    try:
        it=hvsrpy.frequency_domain_window_rejection(h,n=n,max_iterations=maxit,distribution_fn=dfn,distribution_mc=dmc)
    except TypeError: cnt['typeerror']+=1; continue
    except Exception as e:
        if ref is None: cnt['degenerate']+=1
        else: cnt['othererr']+=1; print('ERR',type(e),e)
        continue
    if ref is None: cnt['degenerate']+=1; continue
    v,rit,margin,masks=ref
    if margin<1e-9: cnt['knife']+=1; continue
    if it!=rit or not np.array_equal(h.valid_window_boolean_mask,v) or not np.array_equal(h.valid_peak_boolean_mask,v):
        cnt['mismatch']+=1; print('MISMATCH',it,rit,margin,n,maxit,dfn,dmc)
    else:
        cnt['ok']+=1
        if rit>=2: cnt['multi']+=1
print(cnt)
