import warnings, numpy as np, io, contextlib
warnings.simplefilter("ignore")
import hvsrpy
from hvsrpy import sesame
exec(open('q2.py').read().split("def nearest")[0].split("import warnings, numpy as np, hvsrpy, io, contextlib")[1]) if False else None
def runs(a):
    a=np.asarray(a,float); n=len(a); out=[]; i=1
    while i<n-1:
        if a[i]>a[i-1]:
            j=i
            while j<n-1 and a[j+1]==a[i]: j+=1
            if j<n-1 and a[j+1]<a[i]: out.append((i,j))
            i=j+1
        else: i+=1
    return out
def hp(a):
    R=[(i+j)//2 for i,j in runs(a)]
    if not R: return None
    return max(R,key=lambda q:(a[q],-q))
TABLE=[(0.2,0.25,3.0),(0.5,0.2,2.5),(1.0,0.15,2.0),(2.0,0.10,1.78),(np.inf,0.05,1.58)]
def band(f0,upper_inclusive):
    for edge,e,t in TABLE:
        if f0<edge or (upper_inclusive and f0==edge): return e,t
def ref(lw,nw,f,mc,sd,fstd):
    """returns dict crit-> set of admissible verdicts, plus margin"""
    p=hp(mc); f0=f[p]; A0=mc[p]; sa=np.exp(sd); marg=[]
    def cmp(x,y): marg.append(abs(x-y)/max(abs(y),1e-300)); return x<y
    rel=[ {int(cmp(10/lw,f0))}, {int(cmp(200,lw*nw*f0))} ]
    win=(f>0.5*f0)&(f<2*f0); smax=np.max(sa[win]); 
    thr={2.0} if f0>0.5 else {3.0}
    if f0==0.5: thr={2.0,3.0}
    rel.append({int(smax<t) for t in thr}); [marg.append(abs(smax-t)/t) for t in thr]
    cl=[]
    for lo,hi in [(f0/4,f0),(f0,4*f0)]:
        op=(f>lo)&(f<hi); clo=(f>=lo)&(f<=hi)
        cl.append({int(np.any(mc[op]<A0/2)), int(np.any(mc[clo]<A0/2))}); marg.append(np.min(np.abs(mc[clo]-A0/2))/A0)
    cl.append({int(cmp(2,A0))})
    up=hp(mc*sa); dn=hp(mc/sa); 
    ok=lambda q: (f[q]>0.95*f0 and f[q]<1.05*f0)
    cl.append({int(ok(up) and ok(dn))}); 
    for q in (up,dn): marg+= [abs(f[q]-0.95*f0)/f0, abs(f[q]-1.05*f0)/f0]
    vs=set(); ws=set()
    for inc in (False,True):
        e,t=band(f0,inc); vs.add(int(fstd<e*f0)); ws.add(int(sa[p]<t)); marg+=[abs(fstd-e*f0)/(e*f0),abs(sa[p]-t)/t]
    cl+= [vs,ws]
    return rel,cl,min(marg),f0
r=np.random.default_rng(0); stats={'ok':0,'knife':0,'bad':0,'edge':0}; hist=np.zeros(9)
for t in range(4000):
    edge = r.random()<0.2
    f0t = float(r.choice([0.2,0.5,1.0,2.0])) if edge else float(np.exp(r.uniform(np.log(0.12),np.log(8))))
    f=np.unique(np.concatenate([np.geomspace(0.05,40,int(r.integers(60,200))),[f0t]]))
    mc=1+r.uniform(0.3,6)*np.exp(-0.5*(np.log(f/f0t)/r.uniform(0.08,0.5))**2)+r.uniform(0,1.0)*np.exp(-0.5*(np.log(f/r.uniform(0.1,30))/0.3)**2)*0.5
    sd=r.uniform(0.05,1.2)*(1+0.5*np.sin(np.log(f)*r.uniform(1,5)))
    lw=float(r.uniform(5,600)); nw=int(r.integers(1,400)); 
    p=hp(mc); 
    if p is None: continue
    fstd=float(f[p]*r.choice([0.25,0.2,0.15,0.1,0.05])*np.exp(r.normal(0,0.7)))
    rel,cl,m,f0=ref(lw,nw,f,mc,sd,fstd)
    if f0 in (0.2,0.5,1.0,2.0): stats['edge']+=1
    with contextlib.redirect_stdout(io.StringIO()):
        vr=hvsrpy.sesame.reliability(lw,nw,f,mc,sd,verbose=int(r.integers(0,3)))
        vc=hvsrpy.sesame.clarity(f,mc,sd,fstd,verbose=int(r.integers(0,3)))
    if m<1e-9: stats['knife']+=1; continue
    good=all(int(v) in s for v,s in zip(vr,rel)) and all(int(v) in s for v,s in zip(vc,cl))
    stats['ok' if good else 'bad']+=1
    hist+= np.concatenate([vr,vc])
    if not good: print('BAD',f0,vr,rel,vc,cl)
print(stats, 'pass counts',hist)
