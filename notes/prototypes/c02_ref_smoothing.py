import time, warnings
import numpy as np
import hvsrpy
from hvsrpy import TimeSeries, SeismicRecording3C
from hvsrpy.smoothing import SMOOTHING_OPERATORS
from scipy.signal.windows import tukey
warnings.simplefilter("ignore")

def ref_weights(name, f, fc, bw):
    """weights over grid f for centre fc; independent vectorised definition"""
    f=np.asarray(f,float); w=np.zeros_like(f)
    if fc<1e-6: return w
    ok=f>=1e-6
    with np.errstate(all='ignore'):
        if name=='konno_and_ohmachi':
            x=bw*np.log10(f/fc); inwin=ok&(f/fc<=10**(3/bw))&(f/fc>=10**(-3/bw))
            k=np.where(np.abs(f-fc)<1e-6,1.0,(np.sin(x)/x)**4)
        elif name=='parzen':
            a=np.pi*280/(2*151); x=a*(f-fc)/bw; lim=np.sqrt(6)*a/bw
            inwin=ok&(np.abs(f-fc)<=lim); k=np.where(np.abs(f-fc)<1e-6,1.0,(np.sin(x)/x)**4)
        elif name=='linear_rectangular':
            inwin=ok&(np.abs(f-fc)<=bw/2); k=np.ones_like(f)
        elif name=='linear_triangular':
            inwin=ok&(np.abs(f-fc)<=bw/2); k=1-np.abs(f-fc)*2/bw
        elif name=='log_rectangular':
            inwin=ok&(f/fc>=10**(-bw/2))&(f/fc<=10**(bw/2)); k=np.ones_like(f)
        elif name=='log_triangular':
            inwin=ok&(f/fc>=10**(-bw/2))&(f/fc<=10**(bw/2)); k=1-np.abs(np.log10(f/fc))*2/bw
    w[inwin]=k[inwin]
    return w
def ref_smooth(name,f,spec,fcs,bw):
    out=np.zeros((spec.shape[0],len(fcs)))
    if name=='savitzky_and_golay':
        m=int(bw); h=(m-1)//2; df=f[1]-f[0]
        for j,fc in enumerate(fcs):
            i=int(np.round((fc-f[0])/df))
            if i-h<1 or i+h>len(f)-1: continue
            xs=np.arange(-h,h+1)
            A=np.vander(xs,3)  # quadratic LSQ
            coef=np.linalg.pinv(A)[-1]  # value at 0 = constant term
            out[:,j]=spec[:,i-h:i+h+1]@coef
        return out
    for j,fc in enumerate(fcs):
        w=ref_weights(name,f,fc,bw); s=w.sum()
        if s>0: out[:,j]=spec@w/s
    return out
r=np.random.default_rng(0)
worst={}
for trial in range(60):
    n=int(r.choice([64,100,101,512,2048])); dt=float(r.choice([0.01,0.005,1/75,0.02]))
    f=np.fft.rfftfreq(n,dt); spec=np.abs(r.normal(size=(int(r.integers(1,4)),len(f))))
    fcs=np.sort(np.concatenate([r.uniform(0,f[-1]*1.2,size=8), f[r.integers(0,len(f),size=4)], [0.0]]))
    for name,bws in [('konno_and_ohmachi',[10.,40.,80.]),('parzen',[0.1,0.5,2.]),('linear_rectangular',[0.2,1.]),('log_rectangular',[0.05,0.2]),('linear_triangular',[0.2,1.]),('log_triangular',[0.05,0.2]),('savitzky_and_golay',[5,9,13])]:
        bw=bws[trial%len(bws)]
        a=SMOOTHING_OPERATORS[name](f,spec,fcs,bw); b=ref_smooth(name,f,spec,fcs,bw)
        d=np.max(np.abs(a-b)/(np.abs(b)+1e-12))
        worst[name]=max(worst.get(name,0),d)
        if d>1e-9:
            bad=np.argwhere(np.abs(a-b)>1e-9*(np.abs(b)+1e-12))
            print(name,bw,n,dt,'bad at fcs',fcs[bad[:,1]][:5], a[tuple(bad[0])], b[tuple(bad[0])])
print(worst)
